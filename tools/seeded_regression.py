#!/usr/bin/env python3
"""Run every kept seeded change against the check that is supposed to catch it (quick budget) and record the
outcome in seeded/REGRESSION.json.  Everything happens in scratch worktrees (tools/eval_seeded.py)."""
import json
import os
import subprocess
import sys

HERE = os.path.dirname(os.path.dirname(os.path.abspath(__file__)))
RUNS = {'C07F': '4000', 'C07P': '300', 'C12': '20000', 'C02M': '12000', 'C03M': '6000', 'C03P': '260', 'C03': None, 'C08': '120',
        'C17': '160', 'C11': '110', 'C06': '2000'}


# the part that catches the change, where it differs from the part it was first run against
CATCHING = {'C03-dedup-prefix-interactions': 'C03M'}


def main():
    only = sys.argv[1:]
    out = {}
    path = os.path.join(HERE, 'seeded', 'REGRESSION.json')
    if os.path.exists(path):
        out = json.load(open(path))
    for name in sorted(os.listdir(os.path.join(HERE, 'seeded'))):
        d = os.path.join(HERE, 'seeded', name)
        if not os.path.isdir(d) or (only and not any(name.startswith(o) for o in only)):
            continue
        meta = json.load(open(os.path.join(d, 'meta.json')))
        check = CATCHING.get(name, meta['check_run']['check'])
        cmd = ['python3', os.path.join(HERE, 'tools', 'eval_seeded.py'), d, check]
        if RUNS.get(check):
            cmd.append(RUNS[check])
        cmd.append('--no-tests')
        proc = subprocess.run(cmd, capture_output=True, text=True)
        try:
            res = json.loads(proc.stdout)
        except ValueError:
            res = {'error': proc.stdout[-300:] + proc.stderr[-300:]}
        lines = res.get('check_lines') or []
        out[name] = {'check': check, 'caught': res.get('caught'), 'demo_with_change': res.get('demo_with_change'),
                     'first': [l.strip() for l in lines if 'invariant=' in l][:1], 'apply_error': res.get('apply_error')}
        if meta.get('status') == 'obsolete':
            # harmless on the current tree (a later repair removed what it broke): expected to pass its own demo
            out[name]['note'] = 'obsolete: ' + meta.get('detected_by', '')
            print(name, check, 'OBSOLETE demo_with_change=%s caught=%s' % (res.get('demo_with_change'), res.get('caught')), flush=True)
        else:
            print(name, check, 'CAUGHT' if res.get('caught') else 'MISSED', out[name]['first'], flush=True)
        # several invocations (one per property) may run side by side: merge under a lock
        import fcntl
        with open(path + '.lock', 'w') as lock:
            fcntl.flock(lock, fcntl.LOCK_EX)
            merged = json.load(open(path)) if os.path.exists(path) else {}
            merged[name] = out[name]
            with open(path, 'w') as handle:
                json.dump(merged, handle, indent=1, sort_keys=True)
                handle.write('\n')
        continue
        with open(path, 'w') as handle:
            json.dump(out, handle, indent=1, sort_keys=True)
            handle.write('\n')
    return 0


if __name__ == '__main__':
    sys.exit(main())

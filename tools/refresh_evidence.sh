#!/bin/bash
# Run the quick tier of every registered check against /repo and validate the evidence files it writes.
here="$(cd "$(dirname "${BASH_SOURCE[0]}")/.." && pwd)"
cd "$here"
rc=0
for c in C07 C12 C02 C03 C08 C11 C17 C06; do
  ./check $c > /tmp/refresh_$c.txt 2>&1; code=$?
  echo "$c exit=$code $(grep -c '^VIOLATION' /tmp/refresh_$c.txt) violation(s); $(grep 'SUMMARY' /tmp/refresh_$c.txt | sed 's/distinct_nontrivial.*wall/wall/' | tr '\n' ' ')"
  grep "REACH\|INCONCL\|HARNESS\|BUDGET" /tmp/refresh_$c.txt
  [ $code -ne 0 ] && rc=1
done
for f in evidence/*.json; do
  python3-vt -c "
import json, jsonschema
jsonschema.validate(json.load(open('$f')), json.load(open('/root/.vp/EVIDENCE.schema.json')))" || { echo "$f INVALID"; rc=1; }
done
python3-vt tools/mkmanifest.py
exit $rc

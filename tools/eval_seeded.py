#!/usr/bin/env python3
"""Confirm a seeded change and run the checks against it, all in a scratch worktree (never in /repo).
usage: eval_seeded.py <dir with patch.diff + demo.py> <check id> [runs] [--no-tests]
Prints a JSON summary."""
import json
import os
import subprocess
import sys
import tempfile

HERE = os.path.dirname(os.path.dirname(os.path.abspath(__file__)))


def run(cmd, cwd=None, env=None, timeout=3600):
    proc = subprocess.run(cmd, cwd=cwd, env=env, capture_output=True, text=True, timeout=timeout, shell=isinstance(cmd, str))
    return proc.returncode, proc.stdout + proc.stderr


def main():
    src, check = os.path.abspath(sys.argv[1]), sys.argv[2]
    args = [a for a in sys.argv[3:] if not a.startswith('--')]
    runs = args[0] if args else None
    do_tests = '--no-tests' not in sys.argv
    scratch = tempfile.mkdtemp(prefix='vsim-eval-', dir='/tmp')
    wt = os.path.join(scratch, 'wt')
    out = {'source': src, 'check': check}
    run(['git', '-C', '/repo', 'worktree', 'add', '-q', '--detach', wt, 'HEAD'])
    try:
        demo = os.path.join(src, 'demo.py')
        env = dict(os.environ, PYTHONPATH=wt, PYTHONWARNINGS='ignore', PYTHONDONTWRITEBYTECODE='1')
        text = open(demo).read()
        # demos written by sub-agents refer to their own worktree; point them at ours
        import re
        text2 = re.sub(r'/tmp/wt/C\d\d', wt, text)
        demo2 = os.path.join(scratch, 'demo.py')
        open(demo2, 'w').write(text2)
        is_pytest = 'def test_' in text2 and '__main__' not in text2
        demo_cmd = ['/venv/bin/python', '-m', 'pytest', '-q', '-p', 'no:cacheprovider', demo2] if is_pytest else ['/venv/bin/python', demo2]
        code, _ = run(demo_cmd, cwd=wt, env=env, timeout=900)
        out['demo_without_change'] = code
        code, msg = run(['git', 'apply', os.path.join(src, 'patch.diff')], cwd=wt)
        if code:
            out['apply_error'] = msg[-500:]
            print(json.dumps(out, indent=1))
            return 1
        code, log = run(demo_cmd, cwd=wt, env=env, timeout=900)
        out['demo_with_change'] = code
        out['demo_tail'] = log[-300:]
        if do_tests:
            code, log = run('/venv/bin/python -m pytest -q -p no:cacheprovider --timeout=900 --continue-on-collection-errors 2>&1 | tail -1',
                            cwd=wt, env=dict(os.environ, PYTHONWARNINGS='ignore'), timeout=1800)
            out['tests'] = log.strip()[-120:]
        cenv = dict(os.environ, VERIF_REPO=wt, VERIF_DET='0', VERIF_SCRATCH=scratch,
                    VERIF_EVIDENCE_DIR=os.path.join(scratch, 'evidence'), VERIF_REPLAY_DIR=os.path.join(scratch, 'replays'))
        if runs:
            cenv['VERIF_RUNS'] = runs
        code, log = run([os.path.join(HERE, 'check'), check], env=cenv, timeout=3600)
        lines = [l for l in log.splitlines() if l.startswith(('VIOLATION', '  invariant=', 'SUMMARY', 'KNOWN', 'HARNESS', 'INCONCL'))]
        out['check_exit'] = code
        out['check_lines'] = lines[:8]
        out['caught'] = code == 1
    finally:
        run(['git', '-C', '/repo', 'worktree', 'remove', '--force', wt])
        run(['rm', '-rf', scratch])
    print(json.dumps(out, indent=1))
    return 0


if __name__ == '__main__':
    sys.exit(main())

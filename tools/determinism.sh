#!/bin/bash
# Determinism self-test across driver interpreters: the same check and seed under two different hash seeds of the
# driver and two worker counts must give the same history digest (DESIGN.md section 8).
here="$(cd "$(dirname "${BASH_SOURCE[0]}")/.." && pwd)"
out=${1:-/tmp/vsim-det}; shift
ids=${@:-C07F C12 C02M C03M C06 C08 C03P C17 C11 C07P C02P}
mkdir -p $out/a $out/b
for id in $ids; do
  case $id in C07F|C12|C02M|C03M|C06) runs=600;; C11) runs=12;; *) runs=24;; esac
  VERIF_RUNS=$runs VERIF_DET=0 VERIF_DRIVER_HASHSEED=0 VERIF_WORKERS=16 VERIF_EVIDENCE_DIR=$out/a VERIF_REPLAY_DIR=$out/ra "$here/check" $id > $out/a/$id.log 2>&1
  VERIF_RUNS=$runs VERIF_DET=0 VERIF_DRIVER_HASHSEED=12345 VERIF_WORKERS=5 VERIF_EVIDENCE_DIR=$out/b VERIF_REPLAY_DIR=$out/rb "$here/check" $id > $out/b/$id.log 2>&1
  da=$(python3 -c "import json;print(json.load(open('$out/a/$id.json'))['coverage']['history_digest'])")
  db=$(python3 -c "import json;print(json.load(open('$out/b/$id.json'))['coverage']['history_digest'])")
  if [ "$da" == "$db" ]; then echo "$id deterministic ($runs runs): $da"; else echo "$id MISMATCH $da $db"; fi
done

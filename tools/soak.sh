#!/bin/bash
# Soak: run the quick tier of the given checks over a range of seeds against /repo; evidence and replays go to a
# scratch directory so the registered evidence files are not touched.  usage: tools/soak.sh FIRST LAST [ID ...]
here="$(cd "$(dirname "${BASH_SOURCE[0]}")/.." && pwd)"
first=$1; last=$2; shift 2
ids=${@:-C07 C12 C02 C03 C08 C11 C17 C06}
out=${SOAK_OUT:-/tmp/vsim-soak}
mkdir -p "$out"
export VERIF_EVIDENCE_DIR="$out/evidence" VERIF_REPLAY_DIR="$out/replays"
for seed in $(seq $first $last); do
  for id in $ids; do
    VERIF_SEED=$seed "$here/check" $id > "$out/$id-$seed.log" 2>&1
    code=$?
    echo "seed=$seed check=$id exit=$code $(grep -c '^VIOLATION' "$out/$id-$seed.log") violation(s) $(grep '^INCONCLUSIVE' "$out/$id-$seed.log" | cut -c1-60)"
  done
done

#!/usr/bin/env python3
"""Regenerates /verif/MANIFEST.json from the table below and validates it (python3-vt has jsonschema)."""
import json
import os
import sys

HERE = os.path.dirname(os.path.dirname(os.path.abspath(__file__)))

NA = {
    'C01': 'pure function of (molecule, mappings, target force field): no I/O, clock, peer, fault or retained state reaches do_mapping; its only nondeterminism (set order) is decided end-to-end under C11. Deciding it needs input generation plus a reference mapper, not simulation (DESIGN.md 4/C01).',
    'C04': 'pure function of (residue, reference block); ISMAGS is called on graphs relabelled to integers, so no hash schedule reaches it; the name/order-independence clause is decided end-to-end by the perm/hren variants of C11 (DESIGN.md 4/C04).',
    'C05': 'pure function of (molecule, ordered link list); nothing in the environment reaches match_link/DoLinks beyond the list as loaded (DESIGN.md 4/C05).',
    'C09': 'pure arithmetic on node attributes; the rigid-motion clause is decided end-to-end by the coordinate relation of C11 (DESIGN.md 4/C09).',
    'C10': 'pure function of coordinates, names and block library; KD-tree and dict grouping are deterministic, keys are integers: no schedule, fault or history to simulate (DESIGN.md 4/C10).',
    'C13': 'parsers map an iterable of lines to objects and keep no state between files; the listed faults are malformations of the input text, i.e. different inputs, not I/O faults (DESIGN.md 4/C13).',
    'C14': 'pure function of (molecule, modification library); candidate order follows library order but the statement does not depend on which cover is chosen (DESIGN.md 4/C14).',
    'C15': 'pure numeric function of (molecule, selection, parameters); the rigid-motion / atom-order clause is decided under C11 with -elastic (DESIGN.md 4/C15).',
    'C16': 'fixed-column formatting and parsing are pure string functions; boundary cases are input sizes, not schedules or faults; that written bytes reach the disk intact is C07 (DESIGN.md 4/C16).',
    'C18': 'pure function of (system, contact list, cut-offs); the -go option is exercised as part of the simulated CLI runs of C03/C07/C11 only for its file-level effects (DESIGN.md 4/C18).',
    'C19': 'pure function of (system, specification list); the accumulation in resspec_counts is internal to one call (DESIGN.md 4/C19).',
}

CHECKS = [
    {
        'property_id': 'C07',
        'quick_cmd': './check C07 --tier quick',
        'thorough_cmd': './check C07 --tier thorough',
        'evidence_file': 'evidence/C07.json',
        'replay_cmd_template': './check C07 --replay {path}',
        'engine': 'vsim',
        'level_claimed': {
            'category': 'fault_enumeration',
            'text': 'The real DeferredFileWriter runs on a real directory tree behind FaultFS. Histories of deferred '
                    'opens/writes/appends/re-opens/chdir/finalise/discard over pre-existing files and backups are sampled '
                    'from the seed; for each history the finalisation is re-executed once per crash point (every mutating '
                    'file-system event, complete per history), per torn write/copy cut and per sampled I/O-error placement '
                    '(with retry), with and without a cross-device temp dir. Oracle: WriterModel on the directory tree '
                    '(I1 deferral, I2 exact final content and first-free backup, I3 nothing pre-existing lost after any '
                    'interruption, I4 after retry; after a third of the crashes a new process re-runs the whole history on the tree the '
                    'crash left behind and the original files must still be there). Second layer: simulated martinize2 processes (real entry()) in a working directory '
                    'with pre-existing outputs, real and injected warnings, generated -maxwarn lists and crashes / I/O errors during the '
                    'CLI\'s own finalisation: nothing is written before the gate, no finalisation and non-zero exit when warnings are '
                    'left, backups and contents exact otherwise.',
            'design_ref': 'DESIGN.md 4/C07, appendix A',
        },
        'level_note': 'Crash = process death at a syscall boundary (exception from an audit hook), not power loss; thread '
                      'and multi-process schedules are not simulated; histories are sampled, crash points per history are complete.',
        'technique': 'deterministic simulation: seeded histories on a fault-injecting file system, all crash points per history, reference model oracle',
    },
    {
        'property_id': 'C12',
        'quick_cmd': './check C12 --tier quick',
        'thorough_cmd': './check C12 --tier thorough',
        'evidence_file': 'evidence/C12.json',
        'replay_cmd_template': './check C12 --replay {path}',
        'engine': 'vsim',
        'level_claimed': {
            'category': 'exploration',
            'text': 'Seeded histories of the public editing API (single and bulk node addition/removal incl. one-shot iterators, '
                    'implicit nodes through edges, interactions added/replaced/removed incl. operations that must be rejected, '
                    'copy, subgraph, merge of pool members and blocks, Block.to_molecule, MergeChains, MergeAllMolecules) are applied '
                    'in interleaved order to a pool of up to four live real Molecule objects and to a cache-free reference model; '
                    'after every operation every pool member is compared with its model and checked for dangling references, so '
                    'aliasing between a copy/subgraph and its source and stale cached state surface at the step that exposes them.',
            'design_ref': 'DESIGN.md 4/C12, appendix B',
        },
        'level_note': 'Histories are sampled (5-40 ops), not enumerated. Node and interaction order are not compared. '
                      'Trusted: networkx base-class semantics, the reference model.',
        'technique': 'deterministic simulation: seeded operation histories against a reference model, invariants after every step, ddmin-minimised replay',
    },
    {
        'property_id': 'C02',
        'quick_cmd': './check C02 --tier quick',
        'thorough_cmd': './check C02 --tier thorough',
        'evidence_file': 'evidence/C02.json',
        'replay_cmd_template': './check C02 --replay {path}',
        'engine': 'vsim',
        'level_claimed': {
            'category': 'exploration',
            'text': 'The ITP writer is the observation function of the simulated worlds: every state an editing history reaches '
                    '(sparse/negative/unordered keys after merges and removals, atom ids absent/permuted/partial, guards, groups, '
                    'versions, impropers, virtual_sitesn) may be written; the text is read back by an independent tokenizer and '
                    'compared field by field with a snapshot of the object in memory (atoms 1..N in atom-id order, every interaction '
                    'as a multiset of (section, guard, atom indices, parameters)). Second layer: every write_molecule_itp call made by '
                    'simulated martinize2 runs is intercepted with a snapshot of its argument and checked the same way.',
            'design_ref': 'DESIGN.md 4/C02, appendix C',
        },
        'level_note': 'States are reached by sampled histories; atoms with a mass but no charge are ambiguous in the format and '
                      'their charge/mass columns are not compared. Trusted: the 150-line reader/comparison in sim/vsim/itpcheck.py.',
        'technique': 'deterministic simulation: writer observed on history-produced states, independent reader as oracle',
    },
    {
        'property_id': 'C08',
        'quick_cmd': './check C08 --tier quick',
        'thorough_cmd': './check C08 --tier thorough',
        'evidence_file': 'evidence/C08.json',
        'replay_cmd_template': './check C08 --replay {path}',
        'engine': 'vsim',
        'level_claimed': {
            'category': 'exploration',
            'text': 'The accounting is checked where it acts: in simulated martinize2 processes whose log history (real warnings '
                    'provoked by the derived input plus records injected by the simulator at pipeline stage boundaries) is recorded '
                    'independently and whose -maxwarn list is generated (numbers, names, name:count, repeats, negatives, absent types). '
                    'The statement\'s formula R over the recorded history must equal the value the real code computes at the gate, the '
                    'count it prints, and the gate decision (exit status / finalisation). A counter-only mode replays 150-400 further '
                    'generated histories per run into the real CountingHandler through the real adapters (reported separately).',
            'design_ref': 'DESIGN.md 4/C08',
        },
        'level_note': 'Histories and specifications are sampled. A type both waived by name and limited by number is generated but '
                      'not compared (left unspecified by the statement). Trusted: the 25-line reference formula in sim/vsim/peval.py.',
        'technique': 'deterministic simulation: simulated CLI processes with injected log-record histories, reference-formula oracle at the output gate',
    },
    {
        'property_id': 'C03',
        'quick_cmd': './check C03 --tier quick',
        'thorough_cmd': './check C03 --tier thorough',
        'evidence_file': 'evidence/C03.json',
        'replay_cmd_template': './check C03 --replay {path}',
        'engine': 'vsim',
        'level_claimed': {
            'category': 'exploration',
            'text': 'History check over the files a simulated martinize2 run leaves behind: multi-chain inputs with identical chains '
                    'adjacent and interleaved, exact and noisy copies, under -sep/-merge/-elastic/-resid/-name/-go option mixes and '
                    'simulator-owned hash seed, enumeration order and RNG. After finalisation the -x PDB, every *.itp and the .top are '
                    'parsed by independent readers: k-th coordinate record == k-th [atoms] line of the type named for that molecule, '
                    '[molecules] in coordinate order with correct counts, every type file included exactly once and present, and the '
                    'ITP text each molecule of a shared type would produce at write time is identical. A library-level part writes systems '
                    'of history-made molecules (node order, keys and atom ids disagreeing) with the real PDB/GRO and ITP writers and '
                    'compares them atom for atom.',
            'design_ref': 'DESIGN.md 4/C03, appendix C',
        },
        'level_note': 'Inputs and option sets are sampled from derived structures of 1-4 chains of 2-12 residues. Residue numbers are '
                      'compared modulo the PDB column width, names truncated to the column width.',
        'technique': 'deterministic simulation: simulated CLI runs, cross-artefact agreement of the files on disk checked by independent readers',
    },
    {
        'property_id': 'C11',
        'quick_cmd': './check C11 --tier quick',
        'thorough_cmd': './check C11 --tier thorough',
        'evidence_file': 'evidence/C11.json',
        'replay_cmd_template': './check C11 --replay {path}',
        'engine': 'vsim',
        'level_claimed': {
            'category': 'exploration',
            'text': 'Groups of simulated martinize2 processes on one derived structure and option set: a baseline and 3-5 '
                    'presentations (another PYTHONHASHSEED in another interpreter that loaded the library itself; atoms shuffled '
                    'within residues; hydrogens renamed; cube rotation + lattice translation of the file; arbitrary rotation in '
                    'memory; combinations), with enumeration order and RNG seed owned by the simulator and held equal inside a '
                    'group. Outcome class, canonical topology parsed from the written files (every atom and interaction, floats '
                    'with tolerance) and coordinates (variant == R * baseline + t) must agree.',
            'design_ref': 'DESIGN.md 4/C11',
        },
        'level_note': 'Structures (1-4 chains of 2-12 residues from the shipped test inputs), option sets and hash seeds are sampled. '
                      'Known finding: charge-dummy particles of the polarisable force fields are placed in a fixed/random frame.',
        'technique': 'deterministic simulation: groups of simulated CLI processes under simulator-owned hash seed, RNG and input presentation; metamorphic comparison of outputs',
    },
    {
        'property_id': 'C17',
        'quick_cmd': './check C17 --tier quick',
        'thorough_cmd': './check C17 --tier thorough',
        'evidence_file': 'evidence/C17.json',
        'replay_cmd_template': './check C17 --replay {path}',
        'engine': 'vsim',
        'level_claimed': {
            'category': 'exploration',
            'text': 'Simulated martinize2 processes with -ss / -collagen / -dssp against an in-process DSSP peer that reads the PDB '
                    'the real code hands it and answers per residue from the run PRNG, with injected peer faults (non-zero exit, '
                    'missing executable, unsupported and unparsable version, output truncated on line and byte boundaries, lost and '
                    'duplicated residue lines, missing header, illegal letters, break lines). Systems contain unselected molecules '
                    'before and after the protein chains and chains of equal and unequal length. At the stage boundaries of the real '
                    'processors: every atom of residue k carries element k (three length rules), unselected molecules untouched, '
                    'mismatch or peer failure is an error and never a shifted assignment, and the Martini translation equals a '
                    'run-length transcription of the helix rules. A library-level variant runs the real processors on generated '
                    'systems (long helices, all orders of selected/unselected molecules).',
            'design_ref': 'DESIGN.md 4/C17, appendix D',
        },
        'level_note': 'The peer is a stub (no DSSP binary in the sandbox); the mdtraj path is not driven. Residues are counted in '
                      'input order (lowest node key). A one-element delivery is treated as the documented repetition.',
        'technique': 'deterministic simulation: simulated CLI process with a fault-injecting peer process stub, oracle at processor stage boundaries',
    },
    {
        'property_id': 'C06',
        'quick_cmd': './check C06 --tier quick',
        'thorough_cmd': './check C06 --tier thorough',
        'evidence_file': 'evidence/C06.json',
        'replay_cmd_template': './check C06 --replay {path}',
        'engine': 'vsim',
        'level_claimed': {
            'category': 'exploration',
            'text': 'The real ISMAGS runs on (graph, pattern) pairs under simulator-owned set-iteration schedules: node keys whose '
                    'hashes are drawn from the run PRNG (wide, colliding, rank) and whose ordering is an independent seeded rank, '
                    '6-12 schedules per pair, plus real string keys in fresh interpreters under different PYTHONHASHSEED for a sample. '
                    'Every schedule is compared with brute-force enumeration: all induced isomorphisms exactly once; one '
                    'representative per Aut(pattern) orbit with symmetry reduction; largest common subgraphs valid, of maximum size '
                    'and covering every maximum one up to symmetry; result sets equal across schedules.',
            'design_ref': 'DESIGN.md 4/C06',
        },
        'level_note': 'Bounded by brute force: graph <= 9 nodes, pattern <= 7 nodes, 1-3 node colours, 1-2 edge colours; pairs sampled.',
        'technique': 'deterministic simulation: seeded hash/ordering schedules for set iteration, brute-force reference oracle',
    },
]

MANIFEST = {
    'version': 1,
    'setup_cmd': './setup.sh',
    'hooks': {
        'guard': 'VERMOUTH_VERIF',
        'enable': 'no source hooks: every seam is taken from outside by rebinding module attributes in the simulated process '
                  '(audit hook, shutil.copyfile, vermouth.file_writer._open, tempfile name sequence, subprocess of vermouth.dssp.dssp, ...); '
                  'the guard name is reserved and unused',
        'baseline_off_cmd': 'cd /repo && /venv/bin/python -m pytest -ra -q -p no:cacheprovider --timeout=900 --continue-on-collection-errors',
        'source_commits': [],
        'add_only': True,
    },
    'engines': [
        {'name': 'vsim', 'path': 'sim/vsim', 'serves_properties': [c['property_id'] for c in CHECKS],
         'kind_free_text': 'seeded deterministic simulator written for this repository: FaultFS (audit-hook crash/errno injection, '
                           'torn writes), forked simulated martinize2 processes with owned hash seed / RNG / directory order / DSSP peer / '
                           'log-record injection, reference models, ddmin minimiser, JSON replay files'},
    ],
    'checks': CHECKS,
    'not_applicable': [{'property_id': k, 'reason': v} for k, v in sorted(NA.items())],
    'notes': 'Technique studied: deterministic simulation with fault injection. fix: commits in /repo are listed in known_findings.json.',
}


def main():
    path = os.path.join(HERE, 'MANIFEST.json')
    with open(path, 'w') as handle:
        json.dump(MANIFEST, handle, indent=1)
        handle.write('\n')
    try:
        import jsonschema
        schema = json.load(open('/root/.vp/MANIFEST.schema.json'))
        jsonschema.validate(MANIFEST, schema)
        print('MANIFEST.json valid;', len(CHECKS), 'checks,', len(NA), 'not applicable')
    except ImportError:
        print('MANIFEST.json written (jsonschema not available for validation)')
    props = [json.loads(l)['id'] for l in open(os.path.join(HERE, 'properties.jsonl'))]
    claimed = [c['property_id'] for c in CHECKS]
    missing = [p for p in props if p not in claimed and p not in NA]
    if missing:
        print('NOTE: neither claimed nor not-applicable yet:', missing)


if __name__ == '__main__':
    sys.exit(main())

#!/usr/bin/env python3
"""Copy a confirmed seeded change into /verif/seeded/<name>/ (patch.diff, demo.py, README.md as written by the
sub-agent, meta.json).  usage: keep_seeded.py <agent dir> <name> <property> <eval json> <needs> <detected_by> [<history>]"""
import json
import os
import shutil
import sys

HERE = os.path.dirname(os.path.dirname(os.path.abspath(__file__)))


def main():
    src, name, prop, evalfile, needs, detected = sys.argv[1:7]
    history = sys.argv[7] if len(sys.argv) > 7 else ''
    dst = os.path.join(HERE, 'seeded', name)
    os.makedirs(dst, exist_ok=True)
    for fn in ('patch.diff', 'demo.py', 'README.md'):
        if os.path.exists(os.path.join(src, fn)):
            shutil.copy(os.path.join(src, fn), os.path.join(dst, fn))
    ev = json.load(open(evalfile))
    meta = {
        'property': prop,
        'written_by': 'independent sub-agent given only the property text and a scratch worktree',
        'needs_to_manifest': needs,
        'confirmed_in_scratch_worktree': {
            'demo_exit_without_change': ev.get('demo_without_change'),
            'demo_exit_with_change': ev.get('demo_with_change'),
            'baseline_suite_with_change': ev.get('tests'),
            'how': 'tools/eval_seeded.py: fresh worktree of /repo HEAD under /tmp, git apply patch.diff, demo.py, pinned test command, '
                   './check with VERIF_REPO pointing at the worktree, worktree removed afterwards',
        },
        'check_run': {'check': ev.get('check'), 'exit': ev.get('check_exit'), 'lines': ev.get('check_lines')},
        'detected_by': detected,
        'history': history,
    }
    with open(os.path.join(dst, 'meta.json'), 'w') as handle:
        json.dump(meta, handle, indent=1)
        handle.write('\n')
    print('kept', dst)


if __name__ == '__main__':
    main()

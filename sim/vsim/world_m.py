"""World M - molecule editing histories (C12) with the ITP writer as observation (C02).

System under test: the real ``vermouth.molecule.Molecule`` / ``Block``, ``System``,
``MergeChains`` and ``MergeAllMolecules``.  Reference model ``MolModel`` (appendix B):
ordered dict of nodes, dict of edges, per-type list of interactions, no caches.  A pool
of up to four live objects is edited in interleaved order; after every operation every
pool member is compared with its own model (so editing a copy must leave the source
equal to *its* model) and the dangling-reference invariant is checked on the real object.
"""
import collections
import copy
import io
import itertools

from . import core, itpcheck
from .core import HarnessError, VIOLATION, PASS, result

ATYPES = ['P1', 'C1', 'Qd', 'SN0', 'TC5']
RESNAMES = ['ALA', 'GLY', 'LYS', 'POPC']
ITYPES = {'bonds': 2, 'angles': 3, 'dihedrals': 4, 'impropers': 4, 'constraints': 2, 'pairs': 2,
          'exclusions': 2, 'virtual_sitesn': 3, 'virtual_sites2': 3, 'position_restraints': 1, 'cmap': 5}
METAS = [{}, {}, {}, {'version': 1}, {'version': 2}, {'ifdef': 'FLEXIBLE'}, {'ifndef': 'NO_RUBBER_BANDS'},
         {'group': 'Rubber band'}, {'comment': 'a comment'}, {'ifdef': 'POSRES', 'group': 'Position restraints'},
         {'group': 'Side chain', 'comment': 'sc', 'version': 1}]
NSLOTS = 4


class Violation(Exception):
    def __init__(self, invariant, expected=None, actual=None, signature=None, detail=None):
        super().__init__(invariant)
        self.invariant = invariant
        self.expected = expected
        self.actual = actual
        self.signature = signature or invariant
        self.detail = detail


class MolModel:
    def __init__(self, ff=None, nrexcl=None):
        self.nodes = collections.OrderedDict()
        self.edges = {}                   # frozenset({u, v}) -> attrs
        self.inter = collections.OrderedDict()    # type -> list of [atoms tuple, params list, meta dict]
        self.citations = {'vermouth'}
        self.ff = ff
        self.nrexcl = nrexcl
        self.moltype = None

    def clone(self):
        new = MolModel(self.ff, self.nrexcl)
        new.nodes = collections.OrderedDict((k, dict(v)) for k, v in self.nodes.items())
        new.edges = {k: dict(v) for k, v in self.edges.items()}
        new.inter = collections.OrderedDict((t, [[a, list(p), dict(m)] for a, p, m in items])
                                            for t, items in self.inter.items())
        new.citations = set(self.citations)
        new.moltype = self.moltype
        return new

    # -- elementary edits ---------------------------------------------------
    def add_node(self, key, attrs):
        self.nodes.setdefault(key, {}).update(attrs)

    def add_edge(self, u, v, attrs=None):
        for k in (u, v):
            self.nodes.setdefault(k, {})
        self.edges.setdefault(frozenset((u, v)), {}).update(attrs or {})

    def remove_node(self, key):
        del self.nodes[key]
        for e in [e for e in self.edges if key in e]:
            del self.edges[e]
        for t in list(self.inter):
            self.inter[t] = [i for i in self.inter[t] if key not in i[0]]
            if not self.inter[t]:
                del self.inter[t]

    def add_interaction(self, type_, atoms, params, meta):
        self.inter.setdefault(type_, []).append([tuple(atoms), list(params), dict(meta)])

    def add_or_replace(self, type_, atoms, params, meta, citations):
        atoms = tuple(atoms)
        for item in self.inter.get(type_, []):
            if item[0] == atoms and item[2].get('version', 0) == meta.get('version', 0):
                item[1] = list(params)
                item[2] = dict(meta)
                break
        else:
            self.add_interaction(type_, atoms, params, meta)
        if citations:
            self.citations.update(citations)

    def remove_interaction(self, type_, atoms, version):
        atoms = tuple(atoms)
        items = self.inter.get(type_, [])
        for idx, item in enumerate(items):
            if item[0] == atoms and item[2].get('version', 0) == version:
                del items[idx]
                if not items:
                    del self.inter[type_]
                return True
        return False

    def subgraph(self, keys):
        new = MolModel(self.ff, self.nrexcl)
        new.moltype = self.moltype
        keyset = set(keys)
        for k in keys:
            new.nodes[k] = dict(self.nodes[k])
        for e, attrs in self.edges.items():
            if e <= keyset:
                new.edges[e] = dict(attrs)
        for t, items in self.inter.items():
            kept = [[a, list(p), dict(m)] for a, p, m in items if all(x in keyset for x in a)]
            if kept:
                new.inter[t] = kept
        new.citations = set(self.citations)
        return new

    # -- merge ---------------------------------------------------------------
    def merge_candidates(self):
        """(resid, charge_group) of the receiver's last atom: highest key or last in order."""
        if not self.nodes:
            return [(0, 0)]
        hi = max(self.nodes)
        last = next(reversed(self.nodes))
        cands = []
        for k in (hi, last):
            rg = (self.nodes[k].get('resid', 1), self.nodes[k].get('charge_group', 1))
            if rg not in cands:
                cands.append(rg)
        return cands

    def predicted_correspondence(self, other):
        offset = max(self.nodes) if self.nodes else 0
        return {k: offset + 1 + i for i, k in enumerate(other.nodes)}

    def apply_merge(self, other, corr, rg):
        if self.nrexcl is None and not self.nodes:
            self.nrexcl = other.nrexcl
        for k, attrs in other.nodes.items():
            new = dict(attrs)
            new['resid'] = new.get('resid', 1) + rg[0]
            new['charge_group'] = new.get('charge_group', 1) + rg[1]
            self.nodes[corr[k]] = new
        for e, attrs in other.edges.items():
            ends = [corr[x] for x in e]
            if len(ends) == 2:
                self.edges.setdefault(frozenset(ends), {}).update(attrs)
        for t, items in other.inter.items():
            for a, p, m in items:
                self.add_interaction(t, tuple(corr[x] for x in a), p, m)
        self.citations |= other.citations

    def can_merge(self, other):
        if self.ff != other.ff:
            return False
        nrexcl = self.nrexcl
        if nrexcl is None and not self.nodes:
            nrexcl = other.nrexcl
        return nrexcl == other.nrexcl


# ---------------------------------------------------------------------------
# comparison real <-> model

def real_state(mol):
    nodes = {k: dict(mol.nodes[k]) for k in mol.nodes}
    edges = {frozenset((u, v)): dict(d) for u, v, d in mol.edges(data=True)}
    inter = {}
    for t, items in mol.interactions.items():
        if items:
            inter[t] = [(tuple(i.atoms), list(i.parameters), dict(i.meta)) for i in items]
    return nodes, edges, inter


def diff_states(real, model, relabel=None):
    """List of human-readable differences between a real molecule and its model."""
    nodes, edges, inter = real_state(real)
    out = []
    mnodes = dict(model.nodes)
    if relabel is not None:
        if len(nodes) != len(mnodes):
            return ['node count %d != %d' % (len(nodes), len(mnodes))]
        rel = dict(zip(list(real.nodes), list(model.nodes)))       # real key -> model key (by order)
        nodes = {rel[k]: v for k, v in nodes.items()}
        edges = {frozenset(rel[x] for x in e): v for e, v in edges.items()}
        inter = {t: [(tuple(rel[x] for x in a), p, m) for a, p, m in items] for t, items in inter.items()}
    for k in sorted(set(nodes) | set(mnodes), key=repr):
        if k not in nodes:
            out.append('node %r missing (model has %r)' % (k, mnodes[k]))
        elif k not in mnodes:
            out.append('node %r unexpected %r' % (k, nodes[k]))
        elif nodes[k] != mnodes[k]:
            out.append('node %r attrs %r != %r' % (k, nodes[k], mnodes[k]))
    medges = model.edges
    for e in sorted(set(edges) | set(medges), key=lambda x: sorted(map(repr, x))):
        if e not in edges:
            out.append('edge %r missing' % (sorted(e, key=repr),))
        elif e not in medges:
            out.append('edge %r unexpected' % (sorted(e, key=repr),))
        elif edges[e] != medges[e]:
            out.append('edge %r attrs %r != %r' % (sorted(e, key=repr), edges[e], medges[e]))
    minter = {t: [(a, list(p), dict(m)) for a, p, m in items] for t, items in model.inter.items() if items}
    for t in sorted(set(inter) | set(minter)):
        a = collections.Counter(repr(x) for x in inter.get(t, []))
        b = collections.Counter(repr(x) for x in minter.get(t, []))
        if a != b:
            out.append('interactions %s: only in object %s; only in model %s' % (
                t, list((a - b).elements())[:3], list((b - a).elements())[:3]))
    if real.citations != model.citations:
        out.append('citations %r != %r' % (sorted(real.citations), sorted(model.citations)))
    if real.nrexcl != model.nrexcl:
        out.append('nrexcl %r != %r' % (real.nrexcl, model.nrexcl))
    return out


def dangling(mol):
    """The statement's core invariant evaluated on the real object only."""
    out = []
    present = set(mol.nodes)
    for t, items in mol.interactions.items():
        for i in items:
            missing = [a for a in i.atoms if a not in present]
            if missing:
                out.append('%s %r refers to absent atom(s) %r' % (t, tuple(i.atoms), missing))
    for u, v in mol.edges:
        if u not in present or v not in present:
            out.append('edge (%r, %r) has an absent endpoint' % (u, v))
    return out


class FF:
    """Stand-in force field identity (merge only compares force fields for equality)."""

    def __init__(self, name):
        self.name = name

    def __eq__(self, other):
        return isinstance(other, FF) and other.name == self.name

    def __ne__(self, other):
        return not self == other

    def __hash__(self):
        return hash(self.name)

    def __repr__(self):
        return 'FF(%s)' % self.name


FFS = {'A': FF('A'), 'B': FF('B'), None: None}


class Execution:
    def __init__(self, scenario, stats):
        self.sc = scenario
        self.stats = stats
        self.slots = {}          # slot -> [real, model]
        self.churn = set()
        self.merged_once = set()
        self.events = []

    # -- helpers ---------------------------------------------------------
    def call(self, func, *args, **kwargs):
        try:
            return ('ok', func(*args, **kwargs))
        except Exception as err:
            return ('raise', err)

    def compare_all(self, where):
        for slot in sorted(self.slots):
            real, model = self.slots[slot]
            d = dangling(real)
            if d:
                raise Violation('dangling-reference', expected='every interaction atom and bond endpoint is a node',
                                actual=d[:3], detail='slot %d after %s' % (slot, where))
            diffs = diff_states(real, model)
            if diffs:
                kind = 'state-mismatch'
                if any('citations' in x for x in diffs) and len(diffs) == 1:
                    kind = 'citations-mismatch'
                raise Violation(kind, expected='object equals its reference model', actual=diffs[:4],
                                detail='slot %d after %s' % (slot, where))

    def expect_reject(self, outcome, op, classes=(Exception,)):
        if outcome[0] != 'raise':
            raise Violation('should-reject', expected='operation raises', actual='accepted', detail=repr(op))
        self.stats.probes['rejected_op'] += 1

    def expect_ok(self, outcome, op):
        if outcome[0] == 'raise':
            import traceback
            tb = ''.join(traceback.format_exception(type(outcome[1]), outcome[1], outcome[1].__traceback__))[-800:]
            raise Violation('should-accept:' + op[0], expected='operation succeeds', actual=repr(outcome[1]),
                            detail={'op': op, 'traceback': tb})

    # -- ops -----------------------------------------------------------------
    def run(self):
        import networkx as nx
        import vermouth
        from vermouth.molecule import Molecule, Block
        self.Molecule, self.Block = Molecule, Block
        for op in self.sc['ops']:
            name = op[0]
            handler = getattr(self, 'op_' + name, None)
            if handler is None:
                raise HarnessError('unknown op %r' % (op,))
            applied = handler(op, *op[1:])
            if name in ('add_nodes_from', 'add_edge', 'add_edges_from', 'remove_node', 'remove_nodes_from', 'add_node') \
                    and op[1] in self.slots and id(self.slots[op[1]][0]) in self.merged_once:
                self.churn.add(id(self.slots[op[1]][0]))
            self.events.append([name, bool(applied is not False)])
            self.stats.counters['op:' + name] += 1
            self.compare_all(name)

    def get(self, slot):
        return self.slots.get(slot, (None, None))

    def op_new(self, op, slot, ff, nrexcl):
        real = self.Molecule(force_field=FFS[ff], nrexcl=nrexcl)
        self.slots[slot] = [real, MolModel(FFS[ff], nrexcl)]

    def op_add_node(self, op, slot, key, attrs):
        real, model = self.get(slot)
        if real is None:
            return False
        if key in model.nodes:
            self.stats.probes['add_existing_node'] += 1
        self.expect_ok(self.call(real.add_node, key, **attrs), op)
        model.add_node(key, attrs)

    def op_add_nodes_from(self, op, slot, items, how):
        real, model = self.get(slot)
        if real is None:
            return False
        arg = [(k, dict(a)) if a is not None else k for k, a in items]
        if how == 'gen':
            arg = (x for x in arg)
        self.expect_ok(self.call(real.add_nodes_from, arg), op)
        for k, a in items:
            model.add_node(k, a or {})

    def op_add_edge(self, op, slot, u, v, attrs=None):
        real, model = self.get(slot)
        if real is None or u == v:
            return False
        if u not in model.nodes or v not in model.nodes:
            self.stats.probes['edge_creates_node'] += 1
        if attrs and frozenset((u, v)) in model.edges:
            self.stats.probes['edge_attrs_updated'] += 1
        self.expect_ok(self.call(real.add_edge, u, v, **(attrs or {})), op)
        model.add_edge(u, v, attrs)

    def op_add_edges_from(self, op, slot, pairs):
        real, model = self.get(slot)
        if real is None:
            return False
        pairs = [p for p in pairs if p[0] != p[1]]
        self.expect_ok(self.call(real.add_edges_from, [tuple(p) for p in pairs]), op)
        for u, v in pairs:
            model.add_edge(u, v)

    def op_remove_node(self, op, slot, key):
        real, model = self.get(slot)
        if real is None:
            return False
        out = self.call(real.remove_node, key)
        if key not in model.nodes:
            self.expect_reject(out, op)
            return
        self.expect_ok(out, op)
        if model.nodes and key == max(model.nodes, key=lambda k: (isinstance(k, str), k)):
            self.stats.probes['removed_highest_key'] += 1
        model.remove_node(key)

    def op_remove_nodes_from(self, op, slot, keys, how):
        real, model = self.get(slot)
        if real is None:
            return False
        arg = list(keys)
        if how == 'set':
            arg = set(arg)
        elif how == 'gen':
            arg = (k for k in arg)
            self.stats.probes['remove_nodes_from_iterator'] += 1
        self.expect_ok(self.call(real.remove_nodes_from, arg), op)
        for k in keys:
            if k in model.nodes:
                model.remove_node(k)

    def op_add_interaction(self, op, slot, type_, atoms, params, meta):
        real, model = self.get(slot)
        if real is None:
            return False
        out = self.call(real.add_interaction, type_, tuple(atoms), list(params), dict(meta))
        if not all(a in model.nodes for a in atoms):
            self.expect_reject(out, op)
            return
        self.expect_ok(out, op)
        model.add_interaction(type_, atoms, params, meta)

    def op_add_or_replace(self, op, slot, type_, atoms, params, meta, citations):
        real, model = self.get(slot)
        if real is None:
            return False
        out = self.call(real.add_or_replace_interaction, type_, tuple(atoms), list(params), dict(meta),
                        set(citations) if citations else None)
        if not all(a in model.nodes for a in atoms):
            self.expect_reject(out, op)
            return
        self.expect_ok(out, op)
        before = sum(len(v) for v in model.inter.values())
        model.add_or_replace(type_, atoms, params, meta, citations)
        if sum(len(v) for v in model.inter.values()) == before:
            self.stats.probes['interaction_replaced'] += 1

    def op_remove_interaction(self, op, slot, type_, atoms, version):
        real, model = self.get(slot)
        if real is None:
            return False
        out = self.call(real.remove_interaction, type_, tuple(atoms), version)
        if model.remove_interaction(type_, atoms, version):
            self.expect_ok(out, op)
        else:
            self.expect_reject(out, op)

    def op_remove_matching(self, op, slot, type_, atoms, params):
        from vermouth.molecule import Interaction
        real, model = self.get(slot)
        if real is None:
            return False
        template = Interaction(atoms=tuple(atoms), parameters=list(params), meta={})
        out = self.call(real.remove_matching_interaction, type_, template)
        items = model.inter.get(type_, [])
        hit = None
        for idx, item in enumerate(items):
            if item[0] == tuple(atoms) and (not params or list(item[1]) == list(params)):
                hit = idx
                break
        if hit is None:
            self.expect_reject(out, op)
            return
        self.expect_ok(out, op)
        del items[hit]
        if not items:
            del model.inter[type_]
        self.stats.probes['removed_by_template'] += 1

    def op_copy(self, op, src, dst):
        real, model = self.get(src)
        if real is None:
            return False
        out = self.call(real.copy)
        self.expect_ok(out, op)
        self.slots[dst] = [out[1], model.clone()]
        self.stats.probes['copy_or_subgraph'] += 1

    def op_subgraph(self, op, src, dst, keys):
        real, model = self.get(src)
        if real is None:
            return False
        keys = [k for k in keys if k in model.nodes]
        out = self.call(real.subgraph, list(keys))
        self.expect_ok(out, op)
        self.slots[dst] = [out[1], model.subgraph(keys)]
        self.stats.probes['copy_or_subgraph'] += 1

    def merge_into(self, op, rd, md, rs, ms):
        """rd.merge_molecule(rs) against the model; returns True when accepted."""
        if md.nodes and not all(isinstance(k, int) for k in md.nodes):
            return False
        before_keys = set(md.nodes)
        out = self.call(rd.merge_molecule, rs)
        if not md.can_merge(ms):
            self.expect_reject(out, op)
            self.stats.probes['merge_rejected'] += 1
            return False
        self.expect_ok(out, op)
        corr = out[1]
        if not isinstance(corr, dict) or set(corr) != set(ms.nodes):
            raise Violation('merge-correspondence', expected=sorted(ms.nodes, key=repr),
                            actual=sorted(corr, key=repr) if isinstance(corr, dict) else repr(corr), detail=repr(op))
        vals = list(corr.values())
        if len(set(vals)) != len(vals) or set(vals) & before_keys:
            raise Violation('merge-overwrites', expected='fresh, distinct keys for the newcomer',
                            actual={'reused': sorted(set(vals) & before_keys), 'values': vals[:10]}, detail=repr(op))
        if before_keys and id(rd) in self.churn:
            # the receiver's key set changed through something other than a merge since the last merge
            self.stats.probes['merge_after_key_churn'] += 1
        self.churn.discard(id(rd))
        self.merged_once.add(id(rd))
        trials = []
        for rg in md.merge_candidates():
            trial = md.clone()
            trial.apply_merge(ms, corr, rg)
            trials.append(trial)
            if not diff_states(rd, trial):
                self.stats.probes['merge_ok'] += 1
                return trial
        raise Violation('merge-result', expected='receiver + renamed newcomer, shifted by the last atom',
                        actual=diff_states(rd, trials[0])[:4], detail=repr(op))

    def op_merge(self, op, dst, src):
        if dst == src or dst not in self.slots or src not in self.slots:
            return False
        rd, md = self.slots[dst]
        rs, ms = self.slots[src]
        new_model = self.merge_into(op, rd, md, rs, ms)
        if new_model is False:
            return False
        self.slots[dst][1] = new_model

    def make_block(self, spec):
        """spec: {'name', 'nrexcl', 'ff', 'atoms': [[name, attrs]], 'edges': [[a, b]], 'inter': [[type, atoms, params, meta]]}"""
        block = self.Block(force_field=FFS[spec.get('ff')], nrexcl=spec.get('nrexcl'))
        block.name = spec['name']
        model = MolModel(FFS[spec.get('ff')], spec.get('nrexcl'))
        for name, attrs in spec['atoms']:
            full = dict(attrs, atomname=name)
            block.add_atom(dict(full))
            model.add_node(name, full)
        for a, b in spec['edges']:
            if a in model.nodes and b in model.nodes and a != b:
                block.add_edge(a, b)
                model.add_edge(a, b)
        for type_, atoms, params, meta in spec['inter']:
            if all(a in model.nodes for a in atoms):
                block.add_interaction(type_, tuple(atoms), list(params), dict(meta))
                model.add_interaction(type_, atoms, params, meta)
        return block, model

    def op_merge_block(self, op, dst, spec):
        if dst not in self.slots:
            return False
        rd, md = self.slots[dst]
        block, bmodel = self.make_block(spec)
        new_model = self.merge_into(op, rd, md, block, bmodel)
        if new_model is False:
            return False
        self.slots[dst][1] = new_model
        self.stats.probes['block_merged'] += 1

    def op_block_to_molecule(self, op, dst, spec, atom_offset, offset_resid, offset_cg):
        block, bmodel = self.make_block(spec)
        out = self.call(block.to_molecule, atom_offset=atom_offset, offset_resid=offset_resid,
                        offset_charge_group=offset_cg)
        self.expect_ok(out, op)
        model = MolModel(bmodel.ff, bmodel.nrexcl)
        corr = {k: atom_offset + i for i, k in enumerate(bmodel.nodes)}
        for k, attrs in bmodel.nodes.items():
            new = {'resname': spec['name']}
            new.update(attrs)
            new['resid'] = new.get('resid', 1) + offset_resid
            new['charge_group'] = new.get('charge_group', 1) + offset_cg
            model.nodes[corr[k]] = new
        for e, attrs in bmodel.edges.items():
            model.edges[frozenset(corr[x] for x in e)] = dict(attrs)
        for t, items in bmodel.inter.items():
            for a, p, m in items:
                model.add_interaction(t, tuple(corr[x] for x in a), p, m)
        self.slots[dst] = [out[1], model]

    def op_merge_system(self, op, slots, mode, chains):
        """MergeChains (mode 'chains'/'all') or MergeAllMolecules (mode 'everything') on a system of pool members."""
        from vermouth.system import System
        from vermouth.processors.merge_chains import MergeChains
        from vermouth.processors.merge_all_molecules import MergeAllMolecules
        slots = [s for s in slots if s in self.slots]
        if len(set(slots)) != len(slots) or not slots:
            return False
        ffs = set(repr(self.slots[s][1].ff) for s in slots)
        if len(ffs) != 1:
            return False
        system = System()
        system._force_field = self.slots[slots[0]][1].ff
        system.molecules = [self.slots[s][0] for s in slots]
        models = [self.slots[s][1] for s in slots]
        if mode == 'everything':
            if any(m.nodes and not all(isinstance(k, int) for k in m.nodes) for m in models):
                return False
            out = self.call(MergeAllMolecules().run_system, system)
            # expected: sequential merges into the first, any consistent choice of "last atom"
            ok_chain = True
            base = models[0].clone()
            for other in models[1:]:
                if not base.can_merge(other):
                    ok_chain = False
                    break
                base.apply_merge(other, base.predicted_correspondence(other), base.merge_candidates()[0])
            if not ok_chain:
                self.expect_reject(out, op)
                # a rejected merge may have merged a prefix already: resynchronise by replaying on the model
                base = models[0].clone()
                for other in models[1:]:
                    if not base.can_merge(other):
                        break
                    base.apply_merge(other, base.predicted_correspondence(other), base.merge_candidates()[0])
                self.slots[slots[0]][1] = self.best_variant(self.slots[slots[0]][0], models, partial=True) or base
                return
            self.expect_ok(out, op)
            if len(system.molecules) != 1 or system.molecules[0] is not self.slots[slots[0]][0]:
                raise Violation('merge-all-result', expected='one molecule: the first one', actual=len(system.molecules))
            best = self.best_variant(system.molecules[0], models)
            if best is None:
                base = models[0].clone()
                for other in models[1:]:
                    base.apply_merge(other, base.predicted_correspondence(other), base.merge_candidates()[0])
                raise Violation('merge-result', expected='sequential merge of all molecules',
                                actual=diff_states(system.molecules[0], base)[:4], detail=repr(op))
            self.slots[slots[0]][1] = best
            self.stats.probes['merge_all_molecules'] += 1
            return
        # MergeChains
        all_chains = mode == 'all'
        proc = MergeChains(chains=[] if all_chains else list(chains), all_chains=all_chains)
        out = self.call(proc.run_system, system)
        if not all_chains and not chains:
            self.expect_reject(out, op)
            return
        if all_chains:
            selected = list(range(len(models)))
        else:
            cs = set(chains)
            selected = [i for i, m in enumerate(models) if set(a.get('chain') for a in m.nodes.values()) <= cs]
        merged = MolModel(system._force_field, None)
        okay = True
        for n, i in enumerate(selected):
            if n == 0:
                merged.nrexcl = models[i].nrexcl
            if not merged.can_merge(models[i]):
                okay = False
                break
            merged.apply_merge(models[i], merged.predicted_correspondence(models[i]), merged.merge_candidates()[0])
        if not okay:
            self.expect_reject(out, op)
            return
        self.expect_ok(out, op)
        expected = []
        placed = False
        for i, m in enumerate(models):
            if i in selected:
                if not placed:
                    expected.append(('merged', merged))
                    placed = True
            else:
                expected.append((i, m))
        if len(system.molecules) != len(expected):
            raise Violation('merge-chains-result', expected=len(expected), actual=len(system.molecules), detail=repr(op))
        for mol, (tag, model) in zip(system.molecules, expected):
            if tag == 'merged':
                diffs = diff_states(mol, model, relabel=True)
                if diffs:
                    raise Violation('merge-result', expected='chains merged in system order', actual=diffs[:4],
                                    detail=repr(op))
                d = dangling(mol)
                if d:
                    raise Violation('dangling-reference', actual=d[:3], detail=repr(op))
            elif mol is not self.slots[slots[tag]][0]:
                raise Violation('merge-chains-result', expected='unselected molecule kept', actual='replaced')
        if selected:
            self.stats.probes['merge_chains'] += 1
            # the merged molecule replaces the first selected pool member; the sources stay (unchanged)
            for mol, (tag, model) in zip(system.molecules, expected):
                if tag == 'merged':
                    # adopt the real keys for the model (compared up to order-preserving relabelling)
                    rel = dict(zip(list(model.nodes), list(mol.nodes)))
                    newm = MolModel(model.ff, model.nrexcl)
                    newm.apply_merge(model, rel, (0, 0))
                    newm.citations = set(model.citations)
                    newm.nrexcl = model.nrexcl
                    self.slots[slots[selected[0]]] = [mol, newm]

    def op_inter_edges(self, op, slots, edges):
        """vermouth.edge_tuning.add_inter_molecule_edges on pool members: linked molecules are merged (in place, into the
        first of each group), then the edges are created through the key correspondence."""
        import networkx as nx
        from vermouth.edge_tuning import add_inter_molecule_edges
        slots = [s for s in slots if s in self.slots]
        if len(set(slots)) != len(slots) or len(slots) < 2:
            return False
        models = [self.slots[s][1] for s in slots]
        reals = [self.slots[s][0] for s in slots]
        edges = [e for e in edges if e[0] < len(slots) and e[2] < len(slots)
                 and e[1] in models[e[0]].nodes and e[3] in models[e[2]].nodes and not (e[0] == e[2] and e[1] == e[3])]
        if not edges:
            return False
        graph = nx.Graph()
        graph.add_nodes_from(range(len(slots)))
        graph.add_edges_from((e[0], e[2]) for e in edges)
        comps = [sorted(c) for c in nx.connected_components(graph)]
        for comp in comps:
            base = models[comp[0]]
            if len(comp) > 1 and (base.nodes and not all(isinstance(k, int) for k in base.nodes)):
                return False
            probe = base.clone()
            for i in comp[1:]:
                if not probe.can_merge(models[i]):
                    return False
                probe.apply_merge(models[i], probe.predicted_correspondence(models[i]), probe.merge_candidates()[0])
        out = self.call(add_inter_molecule_edges, reals, [((e[0], e[1]), (e[2], e[3])) for e in edges])
        self.expect_ok(out, op)
        new_list = out[1]
        if len(new_list) != len(comps):
            raise Violation('inter-edges-result', expected='%d molecules' % len(comps), actual=len(new_list), detail=repr(op))
        for comp, mol in zip(comps, new_list):
            if mol is not reals[comp[0]]:
                raise Violation('inter-edges-result', expected='first molecule of each linked group is the base',
                                actual='another object', detail=repr(op))
            # key correspondence of the sequential merges (independent of the residue/charge-group shift)
            corr = {(comp[0], k): k for k in models[comp[0]].nodes}
            keys = set(models[comp[0]].nodes)
            for i in comp[1:]:
                offset = max(keys) if keys else 0
                for n, k in enumerate(models[i].nodes):
                    corr[(i, k)] = offset + 1 + n
                    keys.add(offset + 1 + n)
            merged = self.best_variant(mol, [models[i] for i in comp], edges=[
                (corr[(e[0], e[1])], corr[(e[2], e[3])]) for e in edges if e[0] in comp])
            if merged is None:
                base = models[comp[0]].clone()
                for i in comp[1:]:
                    base.apply_merge(models[i], base.predicted_correspondence(models[i]), base.merge_candidates()[0])
                for e in edges:
                    if e[0] in comp:
                        base.add_edge(corr[(e[0], e[1])], corr[(e[2], e[3])])
                raise Violation('merge-result', expected='linked molecules merged in order, then the edges added',
                                actual=diff_states(mol, base)[:4], detail=repr(op))
            self.slots[slots[comp[0]]][1] = merged
        self.stats.probes['inter_molecule_edges'] += 1

    def best_variant(self, real, models, partial=False, edges=()):
        """Sequential merge of models[1:] into models[0], trying every consistent reading of 'last atom'."""
        def rec(base, rest):
            if not rest:
                for u, v in edges:
                    base.add_edge(u, v)
                return base if not diff_states(real, base) else None
            other = rest[0]
            if not base.can_merge(other):
                return (base if not diff_states(real, base) else None) if partial else None
            for rg in base.merge_candidates():
                trial = base.clone()
                trial.apply_merge(other, trial.predicted_correspondence(other), rg)
                got = rec(trial, rest[1:])
                if got is not None:
                    return got
            return None
        return rec(models[0].clone(), models[1:])

    def op_make_edges(self, op, slot):
        real, model = self.get(slot)
        if real is None:
            return False
        self.expect_ok(self.call(real.make_edges_from_interactions), op)
        for t in ('bonds', 'constraints', 'pairs', 'angles', 'dihedrals', 'cmap'):
            pass
        # documented: bonds, angles, proper dihedrals, cmap and constraints make edges between consecutive atoms
        for t in ('bonds', 'angles', 'dihedrals', 'cmap', 'constraints'):
            for a, p, m in model.inter.get(t, []):
                if m.get('edge', True):
                    for u, v in zip(a[:-1], a[1:]):
                        if u != v:
                            model.add_edge(u, v)

    def op_set_atomids(self, op, slot, mode, seed):
        real, model = self.get(slot)
        if real is None:
            return False
        keys = list(model.nodes)
        rng = core.sub_rng(seed, 'atomids')
        if mode == 'none':
            ids = {}
            for k in keys:
                real.nodes[k].pop('atomid', None)
                model.nodes[k].pop('atomid', None)
            return
        perm = list(range(1, len(keys) + 1))
        rng.shuffle(perm)
        ids = dict(zip(keys, perm))
        if mode == 'partial':
            for k in keys:
                if rng.random() < 0.4:
                    del ids[k]
        for k in keys:
            if k in ids:
                real.nodes[k]['atomid'] = ids[k]
                model.nodes[k]['atomid'] = ids[k]
            else:
                real.nodes[k].pop('atomid', None)
                model.nodes[k].pop('atomid', None)

    def op_coords_vs_itp(self, op, slots, fmt, seed):
        """C03 at library level: coordinate file (PDB or GRO) and ITPs written for a system of pool members whose node
        order, node keys and atom ids disagree; the k-th coordinate record must be the k-th [atoms] line."""
        import numpy as np
        from vermouth.system import System
        from vermouth.gmx.itp import write_molecule_itp
        from vermouth.gmx.gro import write_gro
        from vermouth.pdb.pdb import write_pdb_string
        from . import peval
        slots = [s for s in slots if s in self.slots]
        mols = []
        rng = core.sub_rng(seed, 'positions')
        for s in slots:
            real, model = self.slots[s]
            if not model.nodes or model.nrexcl is None:
                continue
            if not all(all(r in a for r in itpcheck.REQUIRED) for a in model.nodes.values()):
                continue
            if any(m.get('ifdef') is not None and m.get('ifndef') is not None for items in model.inter.values() for _, _, m in items):
                continue
            cp = real.copy()
            for k in cp.nodes:
                cp.nodes[k]['position'] = np.array([rng.uniform(0, 9), rng.uniform(0, 9), rng.uniform(0, 9)])
            cp.meta['moltype'] = 'm%d' % len(mols)
            mols.append(cp)
        if not mols:
            return False
        system = System()
        system.molecules = mols
        if fmt == 'pdb':
            out = self.call(write_pdb_string, system, conect=False)
            self.expect_ok(out, op)
            coord = peval.parse_pdb(out[1])
        else:
            import io
            import vermouth.gmx.gro as gro_mod
            buf = io.StringIO()

            class _Ctx:
                def __enter__(self_):
                    return buf

                def __exit__(self_, *exc):
                    return False
            real_open = gro_mod.deferred_open
            gro_mod.deferred_open = lambda *a, **k: _Ctx()
            try:
                out = self.call(write_gro, system, 'unused.gro', defer_writing=True)
            finally:
                gro_mod.deferred_open = real_open
            self.expect_ok(out, op)
            lines = buf.getvalue().splitlines()
            natoms = int(lines[1])
            recs = [{'resid': int(l[0:5]), 'resname': l[5:10].strip(), 'name': l[10:15].strip()} for l in lines[2:2 + natoms]]
            coord = []
            pos = 0
            for m in mols:
                coord.append(recs[pos:pos + len(m)])
                pos += len(m)
        if len(coord) != len(mols) or any(len(c) != len(m) for c, m in zip(coord, mols)):
            raise Violation('coords-molecule-split', expected=[len(m) for m in mols], actual=[len(c) for c in coord], detail=repr(op))
        width = 4 if fmt == 'pdb' else 5
        rwidth = 3 if fmt == 'pdb' else 5
        mod = 10000 if fmt == 'pdb' else 100000
        for j, (m, recs) in enumerate(zip(mols, coord)):
            buf2 = io.StringIO() if fmt != 'pdb' else __import__('io').StringIO()
            write_molecule_itp(m, buf2)
            parsed = itpcheck.parse_itp(buf2.getvalue())
            for k, (rec, tokens) in enumerate(zip(recs, parsed['atoms'])):
                want = (tokens[4][:width], tokens[3][:rwidth], int(tokens[2]) % mod)
                got = (rec['name'], rec['resname'], rec['resid'] % mod)
                # over-long names are truncated to the column width, from either end depending on the alignment
                same = (rec['name'] in (tokens[4][:width], tokens[4][-width:]) and rec['resname'] in (tokens[3][:rwidth], tokens[3][-rwidth:])
                        and int(tokens[2]) % mod == rec['resid'] % mod)
                if not same:
                    raise Violation('atom-for-atom:' + fmt, expected={'itp': want, 'molecule': j, 'atom': k + 1}, actual={fmt: got},
                                    signature='atom-for-atom:' + fmt, detail=repr(op))
        self.stats.probes['coords_vs_itp_' + fmt] += 1
        if any(list(m.nodes) != list(m.sorted_nodes) for m in mols):
            self.stats.probes['coords_vs_itp_order_disagrees'] += 1

    def op_name_moltypes(self, op, slots, deduplicate):
        """C03: NameMolType on a system of pool members (copies, edited copies, merged molecules): two molecules may
        get the same name only if the ITPs written for them are identical."""
        import io
        from vermouth.system import System
        from vermouth.processors.name_moltype import NameMolType
        from vermouth.gmx.itp import write_molecule_itp
        slots = [s for s in slots if s in self.slots]
        if len(set(slots)) != len(slots) or not slots:
            return False
        system = System()
        system.molecules = [self.slots[s][0] for s in slots]
        out = self.call(NameMolType(deduplicate=bool(deduplicate)).run_system, system)
        self.expect_ok(out, op)
        names = [m.meta.get('moltype') for m in system.molecules]
        if any(n is None for n in names):
            raise Violation('moltype-missing', expected='every molecule named', actual=names, detail=repr(op))
        if not deduplicate and len(set(names)) != len(names):
            raise Violation('moltype-not-unique', expected='distinct names without deduplication', actual=names, detail=repr(op))
        groups = collections.OrderedDict()
        for mol, model, name in zip(system.molecules, [self.slots[s][1] for s in slots], names):
            groups.setdefault(name, []).append((mol, model))
        for name, members in groups.items():
            if len(members) < 2:
                continue
            self.stats.probes['moltype_shared'] += 1
            texts = []
            for mol, model in members:
                writable = (model.nrexcl is not None and len(model.nodes) > 0
                            and all(all(r in a for r in itpcheck.REQUIRED) for a in model.nodes.values())
                            and not any(m.get('ifdef') is not None and m.get('ifndef') is not None
                                        for items in model.inter.values() for _, _, m in items))
                if not writable:
                    texts = None
                    break
                buf = io.StringIO()
                write_molecule_itp(mol, buf, moltype=name)
                texts.append(buf.getvalue())
            if texts is None:
                # not writable as ITP: compare the topological content of the models instead
                def content(model):
                    return (sorted((repr(k), sorted((a, repr(v)) for a, v in attrs.items() if a not in ('position', 'chain', 'graph', 'mapping_weights')))
                                   for k, attrs in model.nodes.items()),
                            sorted(sorted(map(repr, e)) for e in model.edges),
                            sorted((t, sorted(repr(i) for i in items)) for t, items in model.inter.items() if items))
                base = content(members[0][1])
                if any(content(model) != base for _, model in members[1:]):
                    raise Violation('shared-moltype-differs', expected='molecules named %s are identical' % name,
                                    actual='their contents differ', signature='shared-moltype-differs:library', detail=repr(op))
                continue
            if any(t != texts[0] for t in texts[1:]):
                other = next(t for t in texts[1:] if t != texts[0])
                la, lb = texts[0].splitlines(), other.splitlines()
                diff = next(((x, y) for x, y in zip(la, lb) if x != y), ('<%d lines>' % len(la), '<%d lines>' % len(lb)))
                raise Violation('shared-moltype-differs', expected='molecules named %s have identical written topologies' % name,
                                actual={'first': diff[0], 'other': diff[1]}, signature='shared-moltype-differs:library', detail=repr(op))
            self.stats.probes['moltype_shared_checked'] += 1
        self.top_for_system(op, system, [self.slots[s][1] for s in slots], names)

    def top_for_system(self, op, system, models, names):
        """Write the .top and the ITPs of the named system with the real write_gmx_topology (through the deferred writer,
        in a scratch directory) and read them back: [molecules] must list the types in system order with correct counts
        and every type file must be included exactly once."""
        import os
        import shutil
        import tempfile
        from vermouth.system import System
        from vermouth.gmx.topology import write_gmx_topology
        from vermouth.file_writer import DeferredFileWriter
        from . import peval
        for model in models:
            writable = (model.nrexcl is not None and len(model.nodes) > 0
                        and all(all(r in a for r in itpcheck.REQUIRED) for a in model.nodes.values())
                        and not any(m.get('ifdef') is not None and m.get('ifndef') is not None
                                    for items in model.inter.values() for _, _, m in items))
            if not writable:
                return
        system2 = System()
        for mol, name in zip(system.molecules, names):
            cp = mol.copy()
            cp.meta['moltype'] = name
            cp.citations = {'vermouth'}
            cp._force_field = None
            system2.molecules.append(cp)
        system2.meta['header'] = ['written by vsim']
        scratch = tempfile.mkdtemp(prefix='vsim-top-', dir=core.scratch_base())
        cwd = os.getcwd()
        writer = DeferredFileWriter()
        writer.open_files.clear()
        try:
            os.chdir(scratch)
            out = self.call(write_gmx_topology, system2, 'topol.top', itp_paths={}, defines=())
            self.expect_ok(out, op)
            writer.write()
            files = {fn: open(os.path.join(scratch, fn)).read() for fn in os.listdir(scratch)}
        finally:
            os.chdir(cwd)
            writer.open_files.clear()
            shutil.rmtree(scratch, ignore_errors=True)
        top = peval.parse_top(files.get('topol.top', ''))
        expanded = [n for n, c in top['molecules'] for _ in range(c)]
        if expanded != names or any(c < 1 for _, c in top['molecules']):
            raise Violation('molecules-section', expected=names, actual=top['molecules'], signature='molecules-section',
                            detail=repr(op))
        incs = [i for i in top['includes'] if i != 'martini.itp']
        for name in set(names):
            if incs.count('%s.itp' % name) != 1 or ('%s.itp' % name) not in files:
                raise Violation('include-once', expected='%s.itp included once and written' % name,
                                actual={'includes': top['includes'], 'files': sorted(files)}, signature='include-once:library',
                                detail=repr(op))
        self.stats.probes['top_written_and_read'] += 1
        runs = [n for i, n in enumerate(names) if i == 0 or names[i - 1] != n]
        if len(runs) > len(set(runs)):
            self.stats.probes['top_interleaved_types'] += 1

    def op_itp(self, op, slot, moltype):
        """C02 observation: write the state reached by this history and read it back."""
        from vermouth.gmx.itp import write_molecule_itp
        real, model = self.get(slot)
        if real is None:
            return False
        buf = io.StringIO()
        out = self.call(write_molecule_itp, real, buf, moltype=moltype, header=['written by vsim'])
        writable = (model.nrexcl is not None and len(model.nodes) > 0
                    and all(all(r in a for r in itpcheck.REQUIRED) for a in model.nodes.values()))
        guards_ok = not any(m.get('ifdef') is not None and m.get('ifndef') is not None
                            for items in model.inter.values() for _, _, m in items)
        if not writable or not guards_ok:
            self.stats.probes['itp_rejected_incomplete'] += 1
            if not model.nodes:
                return      # an empty molecule: max() of an empty sequence, not covered by the statement
            self.expect_reject(out, op)
            return
        self.expect_ok(out, op)
        snap = itpcheck.snapshot(real, moltype)
        try:
            parsed = itpcheck.parse_itp(buf.getvalue())
        except itpcheck.ParseProblem as err:
            raise Violation('itp-malformed', expected='a well-formed ITP (sections, one level of balanced #ifdef/#ifndef ... #endif)',
                            actual=str(err), detail={'op': op, 'text': buf.getvalue()[-1500:]})
        problems = itpcheck.compare(snap, parsed, moltype)
        self.stats.probes['itp_roundtrip'] += 1
        keys = list(model.nodes)
        if keys != sorted(keys) or any(b - a != 1 for a, b in zip(keys, keys[1:])):
            self.stats.probes['itp_sparse_or_unordered_keys'] += 1
        if any('atomid' in a for a in model.nodes.values()):
            self.stats.probes['itp_with_atomids'] += 1
        if any(t in model.inter for t in ('impropers', 'virtual_sitesn')):
            self.stats.probes['itp_improper_or_vsn'] += 1
        if any(m.get('ifdef') or m.get('ifndef') for items in model.inter.values() for _, _, m in items):
            self.stats.probes['itp_guarded'] += 1
        if problems:
            raise Violation('itp-roundtrip', expected='text states the molecule in memory', actual=problems[:4],
                            detail={'op': op, 'text': buf.getvalue()[-1500:]})


# ---------------------------------------------------------------------------
# generation

class Generator:
    def __init__(self, rng, tier, focus):
        self.rng = rng
        self.tier = tier
        self.focus = focus
        self.models = {}
        self.ops = []
        self.counter = 0

    def attrs(self, rng, complete=True):
        self.counter += 1
        a = {'atomname': rng.choice(['A%d', 'A%d', 'LONGNAME%d', 'X%d']) % self.counter, 'atype': rng.choice(ATYPES), 'resname': rng.choice(RESNAMES),
             'resid': rng.choice([0, 1, 1, 2, 3, 4, 4, -2, 12345]), 'charge_group': rng.choice([0, 1, 2, 3, 4, 5, 6, 150]),
             'chain': rng.choice(['A', 'A', 'B'])}
        r = rng.random()
        if r < 0.5:
            a['charge'] = rng.choice([0.0, 1.0, -1.0, 0.5, -0.25, 0.123456789, 0])
            if rng.random() < 0.5:
                a['mass'] = rng.choice([72.0, 36.0, 0.0, 54.5])
        elif r < 0.55:
            a['mass'] = 72.0
        if not complete and rng.random() < 0.3:
            del a[rng.choice(['atype', 'resid', 'charge_group'])]
        return a

    def fresh_key(self, rng, model):
        r = rng.random()
        keys = [k for k in model.nodes if isinstance(k, int)]
        hi = max(keys) if keys else 0
        if r < 0.5:
            return hi + 1
        if r < 0.7:
            return hi + rng.randint(2, 6)
        if r < 0.8:
            return rng.randint(-4, -1)
        return rng.randint(0, max(hi, 0) + 3)

    def pick_atoms(self, rng, model, n, allow_absent=0.04):
        keys = list(model.nodes)
        if rng.random() < allow_absent or len(keys) < n:
            pool = keys + [999, 998]
            if len(pool) < n:
                return None
            atoms = rng.sample(pool, n)
            if 999 not in atoms and 998 not in atoms and len(keys) >= n:
                return atoms
            return atoms
        return rng.sample(keys, n)

    def interaction(self, rng, model):
        t = rng.choice(sorted(ITYPES))
        n = ITYPES[t]
        if t in ('virtual_sitesn', 'exclusions'):
            n += rng.randint(0, 2)
        atoms = self.pick_atoms(rng, model, n)
        if atoms is None:
            return None
        if t == 'virtual_sitesn':
            params = [rng.choice([1, 2])]
        else:
            params = [rng.choice([1, 2, 9])] + [rng.choice([0.47, 1250, 180.0, '1e3', 35.5, 0.0, 0.4712345678, 2.3238e-07, -93.11763316067692,
                                                            1e-12, 123456.789012])
                                                for _ in range(rng.randint(0, 3))]
        meta = dict(rng.choice(METAS))
        return t, atoms, params, meta

    def block_spec(self, rng, ff, nrexcl):
        n = rng.randint(1, 4)
        names = ['B%d' % i for i in range(n)]
        atoms = []
        for name in names:
            a = self.attrs(rng)
            del a['atomname']
            if rng.random() < 0.5:
                del a['resid']
            if rng.random() < 0.3:
                del a['resname']
            atoms.append([name, a])
        edges = [[names[i], names[i + 1]] for i in range(n - 1) if rng.random() < 0.8]
        inter = []
        for _ in range(rng.randint(0, 3)):
            t = rng.choice(['bonds', 'angles', 'constraints', 'virtual_sitesn'])
            k = ITYPES[t]
            if k <= n:
                inter.append([t, rng.sample(names, k), [1, 0.3], dict(rng.choice(METAS))])
        return {'name': rng.choice(RESNAMES), 'nrexcl': nrexcl, 'ff': ff, 'atoms': atoms, 'edges': edges, 'inter': inter}

    def emit(self, op):
        self.ops.append(op)

    def build(self):
        rng = self.rng
        nops = rng.randint(5, 40 if self.tier == 'thorough' else 25)
        ff0 = rng.choice(['A', 'A', None])
        nrexcl0 = rng.choice([1, 1, 3])
        ex = Execution({'ops': []}, core.Stats())   # only its model side is used for tracking
        # seed molecule
        self.new_molecule(0, ff0, nrexcl0, rng.randint(1, 6))
        if rng.random() < 0.25:
            # an empty receiver that adopts the nrexcl of the first molecule merged into it
            self.emit(['new', 2, ff0, None])
            self.models[2] = MolModel(FFS[ff0], None)
        if rng.random() < 0.6:
            self.new_molecule(1, ff0 if rng.random() < 0.9 else 'B', nrexcl0 if rng.random() < 0.9 else 2,
                              rng.randint(0, 5))
        for _ in range(nops):
            self.step()
        _ = ex
        return self.ops

    def new_molecule(self, slot, ff, nrexcl, natoms):
        rng = self.rng
        self.emit(['new', slot, ff, nrexcl])
        m = MolModel(FFS[ff], nrexcl)
        self.models[slot] = m
        start = rng.choice([0, 1, 1, 5])
        keys = list(range(start, start + natoms))
        if rng.random() < 0.2:
            rng.shuffle(keys)
        if natoms and rng.random() < 0.5:
            items = [[k, self.attrs(rng)] for k in keys]
            self.emit(['add_nodes_from', slot, items, rng.choice(['list', 'gen'])])
            for k, a in items:
                m.add_node(k, a)
        else:
            for k in keys:
                a = self.attrs(rng)
                self.emit(['add_node', slot, k, a])
                m.add_node(k, a)
        for a, b in zip(keys, keys[1:]):
            if rng.random() < 0.7:
                self.emit(['add_edge', slot, a, b])
                m.add_edge(a, b)
        for _ in range(rng.randint(0, 4)):
            it = self.interaction(rng, m)
            if it and all(x in m.nodes for x in it[1]):
                self.emit(['add_interaction', slot, it[0], it[1], it[2], it[3]])
                m.add_interaction(*it)

    def step(self):
        rng = self.rng
        slots = sorted(self.models)
        slot = rng.choice(slots)
        m = self.models[slot]
        keys = list(m.nodes)
        r = rng.random()
        if self.focus == 'C03' and len(slots) > 1 and rng.random() < 0.12:
            self.emit(['name_moltypes', rng.sample(slots, rng.randint(2, len(slots))), int(rng.random() < 0.85)])
            return
        if self.focus == 'C03' and rng.random() < 0.22:
            if rng.random() < 0.5:
                self.emit(['set_atomids', slot, rng.choice(['none', 'perm', 'perm', 'partial']), rng.randrange(1 << 20)])
            self.emit(['coords_vs_itp', rng.sample(slots, rng.randint(1, len(slots))), rng.choice(['pdb', 'gro']), rng.randrange(1 << 20)])
            return
        itp_p = 0.25 if self.focus == 'C02' else 0.04
        if r < itp_p:
            if rng.random() < 0.5:
                self.emit(['set_atomids', slot, rng.choice(['none', 'perm', 'perm', 'partial']), rng.randrange(1 << 20)])
            self.emit(['itp', slot, rng.choice(['molecule_0', 'mol', 'X'])])
            return
        r = rng.random()
        if r < 0.10:
            k = self.fresh_key(rng, m)
            a = self.attrs(rng, complete=rng.random() < 0.95)
            self.emit(['add_node', slot, k, a])
            m.add_node(k, a)
        elif r < 0.17:
            n = rng.randint(1, 3)
            items = []
            for _ in range(n):
                k = self.fresh_key(rng, m)
                a = self.attrs(rng)
                items.append([k, a])
                m.add_node(k, a)
            self.emit(['add_nodes_from', slot, items, rng.choice(['list', 'gen'])])
        elif r < 0.24 and keys:
            u = rng.choice(keys)
            v = rng.choice(keys) if rng.random() < 0.85 else self.fresh_key(rng, m)
            if u != v:
                attrs = rng.choice([None, None, {'distance': rng.choice([0.3, 0.47])}, {'order': rng.choice([1, 2])}])
                if attrs is None and m.edges and rng.random() < 0.3:
                    # update the attributes of an existing bond (exposes attribute dicts shared between copies)
                    u, v = sorted(rng.choice(sorted(m.edges, key=lambda e: sorted(map(repr, e)))), key=repr)
                    attrs = {'order': rng.choice([1, 2, 3])}
                self.emit(['add_edge', slot, u, v] + ([attrs] if attrs else []))
                m.add_edge(u, v, attrs)
        elif r < 0.27 and len(keys) > 1:
            pairs = [rng.sample(keys, 2) for _ in range(rng.randint(1, 3))]
            if rng.random() < 0.2:
                pairs.append([rng.choice(keys), self.fresh_key(rng, m)])
            pairs = [p for p in pairs if p[0] != p[1]]
            self.emit(['add_edges_from', slot, pairs])
            for u, v in pairs:
                m.add_edge(u, v)
        elif r < 0.36 and keys:
            if rng.random() < 0.35:
                k = max(keys, key=lambda x: (isinstance(x, str), x))
            elif rng.random() < 0.06:
                k = 997
            else:
                k = rng.choice(keys)
            self.emit(['remove_node', slot, k])
            if k in m.nodes:
                m.remove_node(k)
        elif r < 0.42 and keys:
            ks = rng.sample(keys, min(len(keys), rng.randint(1, 3)))
            if rng.random() < 0.1:
                ks.append(996)
            self.emit(['remove_nodes_from', slot, ks, rng.choice(['list', 'set', 'gen', 'gen'])])
            for k in ks:
                if k in m.nodes:
                    m.remove_node(k)
        elif r < 0.54 and keys:
            it = self.interaction(rng, m)
            existing = [(t, i) for t, items in m.inter.items() for i in items]
            if existing and rng.random() < 0.15:
                # a second term on the same atoms (e.g. multiple dihedral terms), same version
                t, item = rng.choice(existing)
                it = (t, list(item[0]), [rng.choice([1, 9]), rng.choice([0.1, 60.0, 2])], dict(item[2]))
            if it:
                self.emit(['add_interaction', slot, it[0], it[1], it[2], it[3]])
                if all(x in m.nodes for x in it[1]):
                    m.add_interaction(*it)
        elif r < 0.62 and keys:
            existing = [(t, i) for t, items in m.inter.items() for i in items]
            if existing and rng.random() < 0.6:
                t, item = rng.choice(existing)
                meta = dict(item[2]) if rng.random() < 0.7 else dict(rng.choice(METAS))
                it = (t, list(item[0]), [rng.choice([1, 2]), rng.choice([0.1, 0.2, 500])], meta)
            else:
                it = self.interaction(rng, m)
            if it:
                cites = rng.choice([None, None, ['M3_2021'], ['elnedyn', 'go']])
                self.emit(['add_or_replace', slot, it[0], it[1], it[2], it[3], cites])
                if all(x in m.nodes for x in it[1]):
                    m.add_or_replace(it[0], it[1], it[2], it[3], cites)
        elif r < 0.68:
            existing = [(t, i) for t, items in m.inter.items() for i in items]
            if existing and rng.random() < 0.85:
                t, item = rng.choice(existing)
                atoms, version = list(item[0]), item[2].get('version', 0)
                if rng.random() < 0.1:
                    version += 5
            elif keys:
                t, atoms, version = 'bonds', rng.sample(keys, min(2, len(keys))), 0
            else:
                return
            if rng.random() < 0.25:
                # removal by template: same atoms, and the same parameters when the template gives any
                params = []
                for tt, item in existing:
                    if tt == t and list(item[0]) == list(atoms) and rng.random() < 0.5:
                        params = list(item[1])
                        break
                self.emit(['remove_matching', slot, t, atoms, params])
                items = m.inter.get(t, [])
                for idx, item in enumerate(items):
                    if item[0] == tuple(atoms) and (not params or list(item[1]) == params):
                        del items[idx]
                        if not items:
                            del m.inter[t]
                        break
                return
            self.emit(['remove_interaction', slot, t, atoms, version])
            m.remove_interaction(t, atoms, version)
        elif r < (0.78 if self.focus == 'C03' else 0.74):
            dst = rng.randrange(NSLOTS)
            if dst != slot:
                self.emit(['copy', slot, dst])
                self.models[dst] = m.clone()
        elif r < 0.80 and keys:
            dst = rng.randrange(NSLOTS)
            if dst != slot:
                ks = [k for k in keys if rng.random() < 0.6] or keys[:1]
                # selections may name an atom more than once and in any order; a third of them are padded
                # with repeats up to the size of the whole molecule while still leaving atoms out
                r2 = rng.random()
                if r2 < 0.3 and len(ks) < len(keys):
                    while len(ks) < len(keys):
                        ks.insert(rng.randrange(len(ks) + 1), rng.choice(ks))
                elif r2 < 0.45:
                    for _ in range(rng.randint(1, 2)):
                        ks.insert(rng.randrange(len(ks) + 1), rng.choice(ks))
                elif r2 < 0.55:
                    rng.shuffle(ks)
                self.emit(['subgraph', slot, dst, ks])
                self.models[dst] = m.subgraph(ks)
        elif r < 0.90 and len(slots) > 1:
            src = rng.choice([s for s in slots if s != slot])
            ms = self.models[src]
            self.emit(['merge', slot, src])
            if (not m.nodes or all(isinstance(k, int) for k in m.nodes)) and m.can_merge(ms):
                m.apply_merge(ms, m.predicted_correspondence(ms), m.merge_candidates()[0])
        elif r < 0.94:
            spec = self.block_spec(rng, {FFS['A']: 'A', FFS['B']: 'B', None: None}[m.ff], m.nrexcl if rng.random() < 0.9 else 7)
            self.emit(['merge_block', slot, spec])
            bm = MolModel(FFS[spec['ff']], spec['nrexcl'])
            for name, a in spec['atoms']:
                bm.add_node(name, dict(a, atomname=name))
            for a, b in spec['edges']:
                bm.add_edge(a, b)
            for t, atoms, params, meta in spec['inter']:
                bm.add_interaction(t, atoms, params, meta)
            if m.can_merge(bm):
                m.apply_merge(bm, m.predicted_correspondence(bm), m.merge_candidates()[0])
        elif r < 0.96:
            dst = rng.randrange(NSLOTS)
            spec = self.block_spec(rng, rng.choice(['A', 'A', None]), rng.choice([1, 1, 3]))
            off = [rng.choice([0, 1, 10]), rng.choice([0, 3]), rng.choice([0, 2])]
            self.emit(['block_to_molecule', dst, spec] + off)
            bm = MolModel(FFS[spec['ff']], spec['nrexcl'])
            for i, (name, a) in enumerate(spec['atoms']):
                new = {'resname': spec['name']}
                new.update(dict(a, atomname=name))
                new['resid'] = new.get('resid', 1) + off[1]
                new['charge_group'] = new.get('charge_group', 1) + off[2]
                bm.nodes[off[0] + i] = new
            self.models[dst] = bm      # edges/interactions are irrelevant for key tracking
        elif r < 0.98 and len(slots) > 1:
            chosen = rng.sample(slots, rng.randint(2, len(slots)))
            mode = rng.choice(['chains', 'all', 'everything', 'chains'])
            chains = rng.choice([['A'], ['A', 'B'], ['B'], []]) if mode == 'chains' else []
            self.emit(['merge_system', chosen, mode, chains])
            # tracking: models of merged results are only approximated (keys may change); resync conservatively
            self.resync_after_system(chosen, mode, chains)
        elif r < 0.992 and len(slots) > 1:
            chosen = rng.sample(slots, rng.randint(2, len(slots)))
            ms = [self.models[c] for c in chosen]
            edges = []
            for _ in range(rng.randint(1, 3)):
                i, j = rng.randrange(len(chosen)), rng.randrange(len(chosen))
                if ms[i].nodes and ms[j].nodes:
                    edges.append([i, rng.choice(list(ms[i].nodes)), j, rng.choice(list(ms[j].nodes))])
            if edges:
                self.emit(['inter_edges', chosen, edges])
                self.resync_after_inter_edges(chosen, edges)
        else:
            self.emit(['make_edges', slot])
            for t in ('bonds', 'angles', 'dihedrals', 'cmap', 'constraints'):
                for a, p, meta in m.inter.get(t, []):
                    for u, v in zip(a[:-1], a[1:]):
                        if u != v:
                            m.add_edge(u, v)

    def resync_after_inter_edges(self, chosen, edges):
        import networkx as nx
        models = [self.models[s] for s in chosen]
        edges = [e for e in edges if e[1] in models[e[0]].nodes and e[3] in models[e[2]].nodes and not (e[0] == e[2] and e[1] == e[3])]
        if not edges:
            return
        graph = nx.Graph()
        graph.add_nodes_from(range(len(chosen)))
        graph.add_edges_from((e[0], e[2]) for e in edges)
        comps = [sorted(c) for c in nx.connected_components(graph)]
        for comp in comps:
            probe = models[comp[0]].clone()
            if len(comp) > 1 and probe.nodes and not all(isinstance(k, int) for k in probe.nodes):
                return
            for i in comp[1:]:
                if not probe.can_merge(models[i]):
                    return
                probe.apply_merge(models[i], probe.predicted_correspondence(models[i]), probe.merge_candidates()[0])
        for comp in comps:
            base = models[comp[0]]
            for i in comp[1:]:
                base.apply_merge(models[i], base.predicted_correspondence(models[i]), base.merge_candidates()[0])

    def resync_after_system(self, chosen, mode, chains):
        models = [self.models[s] for s in chosen]
        if len(set(repr(m.ff) for m in models)) != 1:
            return
        if mode == 'everything':
            base = models[0]
            for other in models[1:]:
                if not base.can_merge(other):
                    break
                base.apply_merge(other, base.predicted_correspondence(other), base.merge_candidates()[0])
            return
        if mode == 'chains' and not chains:
            return
        if mode == 'all':
            sel = list(range(len(models)))
        else:
            cs = set(chains)
            sel = [i for i, m in enumerate(models) if set(a.get('chain') for a in m.nodes.values()) <= cs]
        if not sel:
            return
        merged = MolModel(models[0].ff, models[sel[0]].nrexcl)
        for i in sel:
            if not merged.can_merge(models[i]):
                return
            merged.apply_merge(models[i], merged.predicted_correspondence(models[i]), merged.merge_candidates()[0])
        self.models[chosen[sel[0]]] = merged


class _MolCheck(core.Check):
    state_measure = 'distinct digests of the final state of the molecule pool (nodes, edges, interactions of every live object)'
    world = 'M'
    chunk = 50
    run_timeout = 60
    focus = 'C12'
    real_components = ['vermouth.molecule.Molecule/Block (real)', 'vermouth.system.System', 'MergeChains', 'MergeAllMolecules',
                       'vermouth.gmx.itp.write_molecule_itp (real)']
    stub_components = ['force-field identity is a two-valued stand-in object (merge only compares for equality)']
    assumptions = ['networkx base-class semantics for add/remove of nodes and edges',
                   'node and interaction order are not compared (the statements do not mention them)']

    def generate(self, rng, run_index, tier):
        gen = Generator(rng, tier, self.focus)
        return {'ops': gen.build(), 'focus': self.focus}

    def describe(self, scenario):
        return {'ops': scenario['ops'][:40], 'n_ops': len(scenario['ops'])}

    def simplifications(self, scenario):
        ops = scenario['ops']
        for i, op in enumerate(ops):
            if op[0] == 'add_nodes_from' and len(op[2]) > 1:
                for j in range(len(op[2])):
                    new = [op[0], op[1], op[2][:j] + op[2][j + 1:], op[3]]
                    yield dict(scenario, ops=ops[:i] + [new] + ops[i + 1:])
            if op[0] in ('add_node',) and len(op[3]) > 0:
                yield dict(scenario, ops=ops[:i] + [[op[0], op[1], op[2], {}]] + ops[i + 1:])
            if op[0] == 'remove_nodes_from' and len(op[2]) > 1:
                for j in range(len(op[2])):
                    yield dict(scenario, ops=ops[:i] + [[op[0], op[1], op[2][:j] + op[2][j + 1:], op[3]]] + ops[i + 1:])

    def execute(self, scenario):
        stats = core.Stats()
        ex = Execution(scenario, stats)
        stats.execs = 1
        try:
            ex.run()
        except Violation as v:
            stats.nontrivial = True
            stats.counters['ops_executed'] += len(ex.events)
            return result(VIOLATION, invariant=v.invariant, signature=v.signature, expected=v.expected, actual=v.actual,
                          detail=v.detail, events=ex.events, stats=stats.to_json(), run_digest=core.digest(ex.events))
        stats.counters['ops_executed'] += len(ex.events)
        state = []
        for slot in sorted(ex.slots):
            m = ex.slots[slot][1]
            state.append([slot, sorted(map(repr, m.nodes.items())), sorted(sorted(map(repr, e)) for e in m.edges),
                          sorted((t, sorted(map(repr, v))) for t, v in m.inter.items())])
        sd = core.digest(state)
        stats.states.add(sd)
        stats.nontrivial = any(e[0] in ('merge', 'merge_block', 'merge_system', 'copy', 'subgraph', 'remove_node',
                                        'remove_nodes_from', 'itp', 'coords_vs_itp') and e[1] for e in ex.events)
        return result(PASS, events=ex.events, stats=stats.to_json(), run_digest=core.digest([ex.events, sd]))


class C12Check(_MolCheck):
    id = 'C12'
    focus = 'C12'
    rule = ('scenario = history of 5-40 editing operations (add/remove nodes singly and in bulk incl. one-shot iterators, '
            'add/replace/remove interactions incl. rejected ones, add edges with implicit endpoints, copy, subgraph, merge of pool '
            'members and of blocks, Block.to_molecule, MergeChains, MergeAllMolecules, edge_tuning.add_inter_molecule_edges, make_edges_from_interactions) interleaved '
            'over a pool of up to 4 live molecules; after every operation every pool member is compared with its reference model. '
            'distinct = scenario digest; non-trivial = history with at least one applied merge/copy/subgraph/removal')
    probes_expected = ['merge_after_key_churn', 'removed_highest_key', 'remove_nodes_from_iterator', 'rejected_op',
                       'merge_rejected', 'copy_or_subgraph', 'block_merged', 'merge_chains', 'merge_all_molecules', 'inter_molecule_edges',
                       'interaction_replaced', 'edge_creates_node', 'add_existing_node', 'edge_attrs_updated']

    def budgets(self, tier):
        if tier == 'thorough':
            return {'runs': 1000000, 'determinism': 300, 'wall': 3400}
        return {'runs': 20000, 'determinism': 60, 'wall': 1800}


class C02Check(_MolCheck):
    id = 'C02M'
    focus = 'C02'
    rule = ('World M part: the ITP writer observes states that editing histories produce (sparse/negative/unordered keys, atom ids absent, '
            'permuted or partial, guards, groups, versions, impropers, virtual_sitesn); the text is read back by an independent '
            'tokenizer and compared field by field with a snapshot of the object. distinct = scenario digest; non-trivial = at least '
            'one ITP written and compared')
    probes_expected = ['itp_roundtrip', 'itp_sparse_or_unordered_keys', 'itp_with_atomids', 'itp_improper_or_vsn', 'itp_guarded',
                       'itp_rejected_incomplete']

    def budgets(self, tier):
        if tier == 'thorough':
            return {'runs': 500000, 'determinism': 300, 'wall': 3400}
        return {'runs': 12000, 'determinism': 60, 'wall': 1800}


CHECK_C12 = core.register(C12Check())
CHECK_C02 = core.register(C02Check())


class C03MCheck(_MolCheck):
    id = 'C03M'
    focus = 'C03'
    rule = ('World M part: systems of history-made molecules (node order, node keys and atom ids disagreeing after merges, removals '
            'and explicit atom-id permutations) are written with the real write_pdb_string / write_gro and write_molecule_itp; '
            'the k-th coordinate record of each molecule must be the k-th [atoms] line; NameMolType runs on systems of copies and edited '
            'copies and molecules sharing a name must have identical written topologies. distinct = scenario digest; non-trivial = at '
            'least one system written and compared')
    probes_expected = ['coords_vs_itp_pdb', 'coords_vs_itp_gro', 'coords_vs_itp_order_disagrees', 'moltype_shared', 'moltype_shared_checked', 'top_written_and_read', 'top_interleaved_types']

    def budgets(self, tier):
        if tier == 'thorough':
            return {'runs': 300000, 'determinism': 200, 'wall': 3400}
        return {'runs': 6000, 'determinism': 40, 'wall': 1800}


CHECK_C03M = core.register(C03MCheck())

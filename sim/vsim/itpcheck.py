"""Independent ITP reader and the C02 comparison (DESIGN.md appendix C).

The reader is a tokenizer that tracks ``[ section ]`` headers, one level of
``#ifdef/#ifndef ... #endif`` and ``;`` comments.  It knows nothing about vermouth.
The comparison is driven by a plain snapshot of the molecule held in memory.
"""
import math

from .core import HarnessError

REQUIRED = ('atype', 'resid', 'resname', 'atomname', 'charge_group')


class ParseProblem(HarnessError):
    """The text is not a well-formed ITP.  For text produced by the writer under test this is a finding about the
    writer (callers turn it into a violation); for our own fixtures it stays a harness error."""


def snapshot(molecule, moltype=None):
    """Plain-data snapshot of a vermouth Molecule (taken at write time)."""
    nodes = []
    for key in molecule.nodes:
        attrs = molecule.nodes[key]
        nodes.append((key, {k: attrs[k] for k in REQUIRED + ('charge', 'mass', 'atomid') if k in attrs}))
    inter = {}
    for name, interactions in molecule.interactions.items():
        if not interactions:
            continue
        inter[name] = [(tuple(i.atoms), [str(p) for p in i.parameters],
                        {k: i.meta[k] for k in ('ifdef', 'ifndef', 'group', 'comment', 'version') if k in i.meta})
                       for i in interactions]
    return {'nodes': nodes, 'inter': inter, 'nrexcl': molecule.nrexcl,
            'moltype': moltype if moltype is not None else molecule.meta.get('moltype'),
            'define': dict(molecule.meta.get('define', {}))}


def parse_itp(text):
    """-> dict(moltype=(name, nrexcl), atoms=[token lists], records=[(section, guard, tokens, comment)])"""
    section = None
    guard = None
    out = {'moltype': None, 'atoms': [], 'records': [], 'defines': {}, 'sections': []}
    pending_define_guard = None
    for lineno, raw in enumerate(text.splitlines(), 1):
        line = raw
        comment = None
        if ';' in line:
            line, comment = line.split(';', 1)
            comment = comment.strip()
        line = line.strip()
        if not line:
            continue
        if line.startswith('#'):
            tokens = line.split()
            word = tokens[0]
            if word in ('#ifdef', '#ifndef'):
                if guard is not None:
                    raise ParseProblem('nested conditional at line %d: %r' % (lineno, raw))
                guard = (tokens[1], word == '#ifdef')
            elif word == '#endif':
                if guard is None:
                    raise ParseProblem('#endif without #if at line %d' % lineno)
                guard = None
            elif word == '#define':
                out['defines'][tokens[1]] = (' '.join(tokens[2:]), guard)
            elif word == '#include':
                out.setdefault('includes', []).append(tokens[1].strip('"'))
            else:
                raise ParseProblem('unknown directive at line %d: %r' % (lineno, raw))
            continue
        if line.startswith('['):
            if not line.endswith(']'):
                raise ParseProblem('bad section header at line %d: %r' % (lineno, raw))
            section = line[1:-1].strip()
            out['sections'].append(section)
            continue
        tokens = line.split()
        if section is None:
            raise ParseProblem('content before any section at line %d: %r' % (lineno, raw))
        if section == 'moleculetype':
            if out['moltype'] is not None:
                raise ParseProblem('second moleculetype at line %d' % lineno)
            out['moltype'] = (tokens[0], tokens[1])
        elif section == 'atoms':
            out['atoms'].append(tokens)
        else:
            out['records'].append((section, guard, tokens, comment))
    _ = pending_define_guard
    if guard is not None:
        raise ParseProblem('unterminated conditional')
    return out


def atom_order(snap):
    """Node keys in atom-id order (nodes without an atom id last, ties in node order)."""
    keyed = []
    for pos, (key, attrs) in enumerate(snap['nodes']):
        aid = attrs.get('atomid')
        keyed.append((math.inf if aid is None else aid, pos, key))
    keyed.sort(key=lambda item: (item[0], item[1]))
    return [k for _, _, k in keyed]


def _same_number(a, b):
    try:
        return float(a) == float(b)
    except (TypeError, ValueError):
        return str(a) == str(b)


def compare(snap, parsed, moltype=None):
    """Return a list of discrepancies (empty list = the text states the molecule)."""
    problems = []
    name = moltype if moltype is not None else snap['moltype']
    if parsed['moltype'] is None:
        return ['no moleculetype']
    if parsed['moltype'][0] != str(name) or parsed['moltype'][1] != str(snap['nrexcl']):
        problems.append('moleculetype %r != %r' % (parsed['moltype'], (name, snap['nrexcl'])))
    order = atom_order(snap)
    index = {key: i for i, key in enumerate(order, 1)}
    attrs_of = dict(snap['nodes'])
    if len(parsed['atoms']) != len(order):
        problems.append('atom count %d != %d' % (len(parsed['atoms']), len(order)))
        return problems
    for i, (key, tokens) in enumerate(zip(order, parsed['atoms']), 1):
        a = attrs_of[key]
        if tokens[0] != str(i):
            problems.append('atom %d numbered %s' % (i, tokens[0]))
        want = [str(a['atype']), str(a['resid']), str(a['resname']), str(a['atomname']), str(a['charge_group'])]
        if tokens[1:6] != want:
            problems.append('atom %d (node %r): %r != %r' % (i, key, tokens[1:6], want))
        rest = tokens[6:]
        has_c, has_m = 'charge' in a, 'mass' in a
        if has_m and not has_c:
            continue        # ambiguous in the format itself (DESIGN.md section 7)
        want_rest = ([str(a['charge'])] if has_c else []) + ([str(a['mass'])] if has_m else [])
        if len(rest) != len(want_rest) or not all(_same_number(x, y) for x, y in zip(rest, want_rest)):
            problems.append('atom %d (node %r) charge/mass %r != %r' % (i, key, rest, want_rest))
    expected = []
    for name_, items in snap['inter'].items():
        section = 'dihedrals' if name_ == 'impropers' else name_
        for atoms, params, meta in items:
            try:
                idx = [str(index[a]) for a in atoms]
            except KeyError:
                problems.append('interaction %s %r refers to an atom that is not in the molecule' % (name_, atoms))
                continue
            if name_ == 'virtual_sitesn':
                tokens = [idx[0]] + _split(params) + idx[1:]
            else:
                tokens = idx + _split(params)
            guard = None
            if meta.get('ifdef') is not None:
                guard = (meta['ifdef'], True)
            elif meta.get('ifndef') is not None:
                guard = (meta['ifndef'], False)
            expected.append((section, guard, tuple(tokens)))
    got = [(s, g, tuple(t)) for s, g, t, _ in parsed['records']]
    from collections import Counter
    ce, cg = Counter(expected), Counter(got)
    if ce != cg:
        missing = list((ce - cg).elements())[:4]
        extra = list((cg - ce).elements())[:4]
        problems.append('interactions differ: missing from file %r; unexpected in file %r' % (missing, extra))
    return problems


def _split(params):
    out = []
    for p in params:
        out.extend(str(p).split())
    return out

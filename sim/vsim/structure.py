"""Input structures for World P: derived from the shipped atomistic test structures by a
seeded list of structure operations, and re-presented for C11 (DESIGN.md 3.3, 4/C11).

Everything here is pure: (source file, ops) -> PDB text.  Each op is one entry of the
scenario and is what the minimiser deletes.
"""
import itertools
import os

from .core import REPO, sub_rng, HarnessError

POOL_DIR = os.path.join(REPO, 'vermouth', 'tests', 'data', 'integration_tests')
# atomistic inputs only; the coarse-grained golden outputs next to them are excluded
SOURCES = [
    'tier-0/dipro-termini/aa.pdb',
    'tier-0/mini-protein1_betasheet/aa.pdb',
    'tier-0/mini-protein2_helix/aa.pdb',
    'tier-0/mini-protein3_trp-cage/aa.pdb',
    'tier-1/1UBQ/aa.pdb',
    'tier-1/3i40/3i40.pdb',
    'tier-1/6LFO_gap/6LFO_gap.pdb',
    'tier-1/bpti/aa.pdb',
    'tier-1/hst5/aa.pdb',
    'tier-1/lysozyme/aa.pdb',
    'tier-1/villin/aa.pdb',
    'tier-1/1mj5/aa.pdb',
]

_CACHE = {}


def load_source(rel):
    """-> list of residues: dict(chain, resseq, icode, resname, atoms=[line, ...])"""
    if rel in _CACHE:
        return _CACHE[rel]
    path = os.path.join(POOL_DIR, rel)
    residues = []
    cur = None
    with open(path) as handle:
        for line in handle:
            line = line.rstrip('\n')
            if line.startswith('ENDMDL'):
                break
            if not line.startswith('ATOM'):
                continue
            if line[16] not in ' A':
                continue
            line = line[:16] + ' ' + line[17:]
            line = line.ljust(80)
            key = (line[21], line[22:27], line[17:20])
            if cur is None or cur['key'] != key:
                cur = {'key': key, 'chain': line[21], 'resseq': int(line[22:26]), 'icode': line[26],
                       'resname': line[17:20], 'atoms': []}
                residues.append(cur)
            cur['atoms'].append(line)
    _CACHE[rel] = residues
    return residues


def _is_h(line):
    el = line[76:78].strip()
    if el:
        return el == 'H'
    name = line[12:16].strip().lstrip('0123456789')
    return name[:1] == 'H'


BACKBONE = ('N', 'CA', 'C', 'O')


def _set_xyz(line, xyz):
    return line[:30] + ''.join('%8.3f' % v for v in xyz) + line[54:]


def _xyz(line):
    return [float(line[30:38]), float(line[38:46]), float(line[46:54])]


def build(structure):
    """structure = {'source': rel, 'ops': [...]} -> list of PDB lines (no trailing newline)."""
    residues = load_source(structure['source'])
    chains = []      # each: {'id': 'A', 'residues': [ {resname, resseq, icode, atoms:[lines]} ], 'ter': True, 'het': False}
    extras_before = []
    extras_after = []
    for op in structure['ops']:
        kind = op[0]
        if kind == 'chain':
            _, start, length, cid, dx = op
            seg = residues[start:start + length]
            if not seg:
                continue
            new = []
            for r in seg:
                atoms = []
                for a in r['atoms']:
                    x, y, z = _xyz(a)
                    atoms.append(_set_xyz(a[:21] + cid + a[22:], (x + dx, y, z)))
                new.append({'resname': r['resname'], 'resseq': r['resseq'], 'icode': r['icode'], 'atoms': atoms})
            chains.append({'id': cid, 'residues': new, 'ter': True})
        elif kind == 'copy':
            _, idx, cid, dx, noise_seed, amp = op
            if idx >= len(chains):
                continue
            rng = sub_rng(noise_seed, 'noise')
            new = []
            for r in chains[idx]['residues']:
                atoms = []
                for a in r['atoms']:
                    x, y, z = _xyz(a)
                    if amp:
                        x, y, z = (x + rng.uniform(-amp, amp), y + rng.uniform(-amp, amp), z + rng.uniform(-amp, amp))
                    atoms.append(_set_xyz(a[:21] + cid + a[22:], (x + dx, y, z)))
                new.append(dict(r, atoms=atoms))
            chains.append({'id': cid, 'residues': new, 'ter': True})
        elif kind == 'order':
            perm = [i for i in op[1] if i < len(chains)]
            rest = [i for i in range(len(chains)) if i not in perm]
            chains = [chains[i] for i in perm + rest]
        elif kind == 'drop_h':
            if op[1] < len(chains):
                for r in chains[op[1]]['residues']:
                    r['atoms'] = [a for a in r['atoms'] if not _is_h(a)]
        elif kind == 'drop_atoms':
            _, idx, seed, frac = op
            if idx < len(chains):
                rng = sub_rng(seed, 'drop')
                for r in chains[idx]['residues']:
                    r['atoms'] = [a for a in r['atoms'] if a[12:16].strip() in BACKBONE or _is_h(a) or rng.random() >= frac]
        elif kind == 'drop_res':
            _, idx, k = op
            if idx < len(chains) and len(chains[idx]['residues']) > 2:
                k = 1 + k % (len(chains[idx]['residues']) - 2)
                del chains[idx]['residues'][k]
        elif kind == 'renumber':
            _, idx, first, step_at, gap = op
            if idx < len(chains):
                n = first
                for i, r in enumerate(chains[idx]['residues']):
                    if i == step_at:
                        n += gap
                    r['resseq'] = n
                    r['icode'] = ' '
                    n += 1
        elif kind == 'renumber_restart':
            # residue numbers restart (lower) in the middle of a chain: a valid file whose residues are not in sorted order
            _, idx, at, first2 = op
            if idx < len(chains) and len(chains[idx]['residues']) > 1:
                at = 1 + at % (len(chains[idx]['residues']) - 1)
                hi = max(r['resseq'] for r in chains[idx]['residues'][:at])
                lo = min(r['resseq'] for r in chains[idx]['residues'][:at])
                n = first2 if first2 + (len(chains[idx]['residues']) - at) < lo else hi + 50
                if first2 + (len(chains[idx]['residues']) - at) >= lo:
                    n = max(1, lo - (len(chains[idx]['residues']) - at) - 3)
                    if n + (len(chains[idx]['residues']) - at) >= lo:
                        continue
                for r in chains[idx]['residues'][at:]:
                    r['resseq'] = n
                    r['icode'] = ' '
                    n += 1
        elif kind == 'icode':
            _, idx, k = op
            if idx < len(chains) and len(chains[idx]['residues']) > 1:
                k = 1 + k % (len(chains[idx]['residues']) - 1)
                rs = chains[idx]['residues']
                rs[k]['resseq'] = rs[k - 1]['resseq']
                rs[k]['icode'] = 'A'
        elif kind == 'altloc':
            _, idx, seed = op
            if idx < len(chains):
                rng = sub_rng(seed, 'altloc')
                for r in chains[idx]['residues']:
                    new = []
                    for a in r['atoms']:
                        if a[12:16].strip() not in BACKBONE and not _is_h(a) and rng.random() < 0.15:
                            x, y, z = _xyz(a)
                            new.append(a[:16] + 'A' + a[17:])
                            new.append(_set_xyz(a[:16] + 'B' + a[17:], (x + 0.3, y, z)))
                        else:
                            new.append(a)
                    r['atoms'] = new
        elif kind == 'noter':
            if op[1] < len(chains):
                chains[op[1]]['ter'] = False
        elif kind == 'water':
            _, n, where = op
            lines = []
            for i in range(n):
                x = 200.0 + 5 * i
                lines.append('HETATM    1  OW  HOH W%4d    %8.3f%8.3f%8.3f  1.00  0.00           O  ' % (900 + i, x, 0.0, 0.0))
            (extras_before if where == 'before' else extras_after).append({'id': 'W', 'lines': lines})
        elif kind == 'unknown':
            _, resname, where = op
            lines = ['HETATM    1  C1  %3s X 950    %8.3f%8.3f%8.3f  1.00  0.00           C  ' % (resname, 300.0, 0.0, 0.0),
                     'HETATM    2  C2  %3s X 950    %8.3f%8.3f%8.3f  1.00  0.00           C  ' % (resname, 301.5, 0.0, 0.0)]
            (extras_before if where == 'before' else extras_after).append({'id': 'X', 'lines': lines})
        elif kind == 'small':
            # a small molecule known to the charmm force field (survives repair), placed far away
            _, resname, where = op
            lines = small_molecule(resname)
            (extras_before if where == 'before' else extras_after).append({'id': 'L', 'lines': lines})
        else:
            raise HarnessError('unknown structure op %r' % (op,))
    out = []
    for ex in extras_before:
        out.extend(ex['lines'])
        out.append('TER')
    for ch in chains:
        for r in ch['residues']:
            for a in r['atoms']:
                out.append(a[:22] + '%4d' % (r['resseq'] % 10000) + r['icode'] + a[27:])
        if ch['ter']:
            out.append('TER')
    for ex in extras_after:
        out.extend(ex['lines'])
        out.append('TER')
    out.append('END')
    return renumber_serials(out)


_SMALL = {}


def small_molecule(resname):
    """Coordinates for a small molecule block of the charmm force field, laid out on a line
    far from everything else; bonds come from names."""
    if resname in _SMALL:
        return list(_SMALL[resname])
    import vermouth.forcefield
    ff = vermouth.forcefield.get_native_force_field('charmm')
    block = ff.blocks[resname]
    lines = []
    for i, (name, attrs) in enumerate(block.nodes.items()):
        el = attrs.get('element', name[0])
        nm = name if len(name) == 4 else ' ' + name.ljust(3)
        lines.append('HETATM%5d %4s %-4sL 800    %8.3f%8.3f%8.3f  1.00  0.00          %2s  ' % (
            i + 1, nm, resname[:4], 400.0 + 1.2 * i, 0.0, 0.0, el.rjust(2)))
    _SMALL[resname] = lines
    return list(lines)


def renumber_serials(lines):
    n = 0
    out = []
    for l in lines:
        if l.startswith(('ATOM', 'HETATM')):
            n += 1
            l = l[:6] + '%5d' % (n % 100000) + l[11:]
        out.append(l)
    return out


# ---------------------------------------------------------------------------
# presentations (C11)

def cube_rotations():
    mats = []
    for p in itertools.permutations(range(3)):
        for s in itertools.product([1, -1], repeat=3):
            m = [[0] * 3 for _ in range(3)]
            for i in range(3):
                m[i][p[i]] = s[i]
            det = (m[0][0] * (m[1][1] * m[2][2] - m[1][2] * m[2][1])
                   - m[0][1] * (m[1][0] * m[2][2] - m[1][2] * m[2][0])
                   + m[0][2] * (m[1][0] * m[2][1] - m[1][1] * m[2][0]))
            if det == 1:
                mats.append(m)
    return mats


ROTATIONS = cube_rotations()


def present(lines, variant):
    """variant = {'perm': seed|None, 'hren': seed|None, 'rigid': [rot_index, tx, ty, tz] | None}
    (translation in units of 0.001 A, exactly representable in the PDB columns)."""
    perm = variant.get('perm')
    hren = variant.get('hren')
    rigid = variant.get('rigid')
    rot = ROTATIONS[rigid[0] % len(ROTATIONS)] if rigid else None
    out = []
    cur = []
    curkey = None
    rng_p = sub_rng(perm, 'perm') if perm is not None else None
    rng_h = sub_rng(hren, 'hren') if hren is not None else None

    def flush():
        nonlocal cur
        if rng_h is not None and cur:
            hs = [i for i, l in enumerate(cur) if _is_h(l)]
            used = set(l[12:16].strip() for i, l in enumerate(cur) if i not in hs)
            names = []
            n = rng_h.randrange(1, 50)
            while len(names) < len(hs):
                cand = 'H%d' % n
                n += rng_h.randrange(1, 4)
                if cand not in used:
                    names.append(cand)
                    used.add(cand)
            rng_h.shuffle(names)
            for i, nm in zip(hs, names):
                l = cur[i]
                field = nm if len(nm) == 4 else ' ' + nm.ljust(3)
                cur[i] = l[:12] + field + l[16:]
        if rng_p is not None:
            rng_p.shuffle(cur)
        out.extend(cur)
        cur = []

    for l in lines:
        if l.startswith(('ATOM', 'HETATM')):
            key = l[17:27]
            if key != curkey:
                flush()
                curkey = key
            if rot is not None:
                x = [int(round(float(l[30 + 8 * i:38 + 8 * i]) * 1000)) for i in range(3)]
                y = [sum(rot[i][j] * x[j] for j in range(3)) + rigid[1 + i] for i in range(3)]
                l = l[:30] + ''.join('%8.3f' % (v / 1000.0) for v in y) + l[54:]
            cur.append(l)
        else:
            flush()
            curkey = None
            if l.startswith('CONECT'):
                continue
            out.append(l)
    flush()
    return renumber_serials(out)


def apply_rigid(variant, xyz):
    """Expected image (in nm) of a baseline position (nm) under the variant's rigid motion."""
    rigid = variant.get('rigid')
    if not rigid:
        return list(xyz)
    rot = ROTATIONS[rigid[0] % len(ROTATIONS)]
    return [sum(rot[i][j] * xyz[j] for j in range(3)) + rigid[1 + i] / 10000.0 for i in range(3)]

"""Core of the deterministic simulator: seed derivation, run driver, minimiser,
replay files, known findings and evidence.  See DESIGN.md section 3.1.

One integer (VERIF_SEED) decides everything.  A run is a pure function of
(seed, check id, run index, code): the scenario is drawn from
``sub_rng(seed, check, run_index, 'gen')`` and executed; nothing else is random.
Logging never draws from a PRNG and never reads a clock (wall time is only
measured by the driver for the evidence file and for hang protection).
"""
import base64
import collections
import concurrent.futures as cf
import faulthandler
import hashlib
import json
import multiprocessing
import os
import random
import shutil
import signal
import sys
import time
import traceback

VERIF_ROOT = os.path.dirname(os.path.dirname(os.path.dirname(os.path.abspath(__file__))))
REPO = os.environ.get('VERIF_REPO', '/repo')

PASS = 'PASS'
VIOLATION = 'VIOLATION'
KNOWN = 'KNOWN-FINDING'
HARNESS_ERROR = 'HARNESS-ERROR'
HARNESS_TIMEOUT = 'HARNESS-TIMEOUT'


class HarnessError(Exception):
    """Something in the machinery (not in the system under test) went wrong."""


# ---------------------------------------------------------------------------
# randomness

def sub_rng(seed, *parts):
    """Independent, reproducible PRNG substream for (seed, parts...)."""
    text = json.dumps([seed] + [str(p) for p in parts])
    h = hashlib.sha256(text.encode()).digest()
    return random.Random(int.from_bytes(h[:16], 'big'))


def sub_int(seed, *parts, bits=31):
    text = json.dumps([seed] + [str(p) for p in parts])
    h = hashlib.sha256(text.encode()).digest()
    return int.from_bytes(h[:8], 'big') >> (64 - bits)


def digest(obj):
    """Stable digest of a JSON-able object."""
    return hashlib.sha256(json.dumps(obj, sort_keys=True, default=_default).encode()).hexdigest()[:16]


def _default(o):
    if isinstance(o, bytes):
        return {'b64': base64.b64encode(o).decode()}
    if isinstance(o, (set, frozenset)):
        return sorted(o, key=repr)
    return repr(o)


def b64(data):
    return base64.b64encode(data).decode()


def unb64(text):
    return base64.b64decode(text)


def scratch_base():
    base = os.environ.get('VERIF_SCRATCH')
    if not base:
        base = '/dev/shm' if os.path.isdir('/dev/shm') and os.access('/dev/shm', os.W_OK) else '/tmp'
    return base


# ---------------------------------------------------------------------------
# results

def result(verdict=PASS, invariant=None, signature=None, expected=None, actual=None,
           detail=None, events=None, stats=None, run_digest=None):
    return {'verdict': verdict, 'invariant': invariant, 'signature': signature,
            'expected': expected, 'actual': actual, 'detail': detail,
            'events_tail': (events or [])[-40:], 'stats': stats or {},
            'digest': run_digest}


class Stats:
    """Mergeable counters a run reports (all JSON-able)."""

    def __init__(self):
        self.execs = 0
        self.faults = collections.Counter()
        self.probes = collections.Counter()
        self.counters = collections.Counter()
        self.states = set()
        self.nontrivial = False

    def to_json(self):
        return {'execs': self.execs, 'faults': dict(self.faults), 'probes': dict(self.probes),
                'counters': dict(self.counters), 'states': sorted(self.states),
                'nontrivial': self.nontrivial}


# ---------------------------------------------------------------------------
# checks

class Check:
    """Base class of a registered check (one per property)."""
    id = None
    parts = None                  # composite check: ids of the part checks run one after the other
    level = 'exploration'
    world = ''
    real_components = []
    stub_components = []
    assumptions = []
    rule = ''
    state_measure = ''            # what 'distinct_states' counts for this check
    probes_expected = []          # probe names that should be non-zero in a thorough run
    chunk = 10                    # runs per worker task
    run_timeout = 120             # seconds per run (hang protection only)

    def budgets(self, tier):
        """-> dict(runs=..., workers=..., determinism=...)"""
        raise NotImplementedError

    def worker_init(self, tier):
        pass

    def generate(self, rng, run_index, tier):
        raise NotImplementedError

    def execute(self, scenario):
        """-> result dict.  Must not raise for SUT misbehaviour."""
        raise NotImplementedError

    # minimiser support -----------------------------------------------
    list_keys = ('ops',)          # scenario keys holding lists that ddmin may thin out

    def simplifications(self, scenario):
        """Yield simpler variants of a scenario (per-op simplification)."""
        return ()

    def describe(self, scenario):
        """Short JSON-able rendering for evidence samples."""
        return scenario


_CHECKS = {}
_WORKER = {'inited': set()}


def register(check):
    _CHECKS[check.id] = check
    return check


def get_check(cid):
    if cid not in _CHECKS:
        from . import registry  # noqa: F401  (imports all check modules)
    return _CHECKS[cid]


def _ensure_init(check, tier):
    key = (check.id, tier)
    if key not in _WORKER['inited']:
        check.worker_init(tier)
        _WORKER['inited'].add(key)


def safe_execute(check, scenario):
    """execute() with harness exceptions classified apart from violations."""
    try:
        res = check.execute(scenario)
    except HarnessError as err:
        res = result(HARNESS_ERROR, invariant='harness', detail=''.join(
            traceback.format_exception(type(err), err, err.__traceback__))[-4000:])
    except Exception as err:  # an exception escaping execute() is ours by contract
        res = result(HARNESS_ERROR, invariant='harness-exception', detail=''.join(
            traceback.format_exception(type(err), err, err.__traceback__))[-4000:])
    return res


def _run_chunk(cid, seed, tier, indices, keep_scenarios=False):
    check = get_check(cid)
    fleet = getattr(check, 'mode', 'pool') == 'fleet'
    if not fleet:
        faulthandler.dump_traceback_later(check.run_timeout * len(indices) + 60, exit=True)
    out = []
    try:
        _ensure_init(check, tier)
        for idx in indices:
            rng = sub_rng(seed, cid, idx, 'gen')
            try:
                scenario = check.generate(rng, idx, tier)
            except Exception as err:
                out.append((idx, None, result(HARNESS_ERROR, invariant='generate', detail=''.join(
                    traceback.format_exception(type(err), err, err.__traceback__))[-4000:]), 'none', None))
                continue
            if not fleet:
                # a single run that does not come back (a pathological case for the system under test or for the
                # brute-force oracle) is inconclusive; it must not take the whole worker pool down
                signal.signal(signal.SIGALRM, _alarm)
                signal.setitimer(signal.ITIMER_REAL, check.run_timeout)
            try:
                res = safe_execute(check, scenario)
            except RunTimeout:
                res = result(HARNESS_TIMEOUT, invariant='run-timeout', detail='no answer within %s s' % check.run_timeout)
            finally:
                if not fleet:
                    signal.setitimer(signal.ITIMER_REAL, 0)
            sdig = digest(scenario)
            if res['verdict'] == PASS and not keep_scenarios:
                # keep the driver's memory flat over a million runs: a passed run is represented by its digests,
                # its counters and (for the first few) a rendering for the evidence samples
                res['events_tail'] = []
                sample = check.describe(scenario) if idx < 8 else None
                out.append((idx, None, res, sdig, sample))
            else:
                out.append((idx, scenario, res, sdig, check.describe(scenario) if idx < 8 else None))
    finally:
        if not fleet:
            faulthandler.cancel_dump_traceback_later()
    return out


class RunTimeout(BaseException):
    pass


def _alarm(signum, frame):
    raise RunTimeout()


def _exec_scenarios(cid, tier, scenarios):
    check = get_check(cid)
    _ensure_init(check, tier)
    return [safe_execute(check, s) for s in scenarios]


def _pool(workers, check=None):
    if check is not None and getattr(check, 'mode', 'pool') == 'fleet':
        # World P: runs execute in forked children of the fleet's worker interpreters; the driver
        # only needs concurrency to keep them busy
        return cf.ThreadPoolExecutor(max_workers=workers)
    ctx = multiprocessing.get_context('fork')
    return cf.ProcessPoolExecutor(max_workers=workers, mp_context=ctx)


def _kill_pool(pool):
    if isinstance(pool, cf.ThreadPoolExecutor):
        pool.shutdown(wait=False, cancel_futures=True)
        return
    for proc in list(getattr(pool, '_processes', {}).values()):
        try:
            proc.kill()
        except Exception:
            pass
    pool.shutdown(wait=False, cancel_futures=True)


# ---------------------------------------------------------------------------
# known findings

def load_findings():
    path = os.path.join(VERIF_ROOT, 'known_findings.json')
    if not os.path.exists(path):
        return {'findings': [], 'fixed': []}
    with open(path) as handle:
        return json.load(handle)


def known_signature(findings, cid, signature):
    for entry in findings.get('findings', []):
        if entry['property'] == cid and entry['signature'] == signature:
            return entry
    return None


# ---------------------------------------------------------------------------
# minimiser

def minimise(check, scenario, first, execute, budget=250, wall=120.0):
    """ddmin over the scenario's op lists, then per-op simplification.

    A candidate is accepted only if the same invariant fails again.
    ``execute(scenario) -> result``.
    """
    target = first['invariant']
    sig = first.get('signature')
    t0 = time.time()
    used = [0]

    def fails(cand):
        if used[0] >= budget or time.time() - t0 > wall:
            return False
        used[0] += 1
        res = execute(cand)
        return res['verdict'] == VIOLATION and res['invariant'] == target and res.get('signature') == sig

    best = scenario
    for key in check.list_keys:
        items = list(best.get(key, []))
        n = 2
        while len(items) >= 1 and used[0] < budget:
            size = max(1, len(items) // n)
            reduced = False
            for start in range(0, len(items), size):
                cand_items = items[:start] + items[start + size:]
                cand = dict(best)
                cand[key] = cand_items
                if fails(cand):
                    items = cand_items
                    best = cand
                    n = max(n - 1, 2)
                    reduced = True
                    break
            if not reduced:
                if size == 1:
                    break
                n = min(len(items), n * 2)
    progress = True
    while progress and used[0] < budget:
        progress = False
        for cand in check.simplifications(best):
            if digest(cand) == digest(best):
                continue
            if fails(cand):
                best = cand
                progress = True
                break
    return best, used[0]


# ---------------------------------------------------------------------------
# driver

def versions():
    out = {'python': sys.version.split()[0]}
    for name in ('networkx', 'numpy'):
        try:
            out[name] = __import__(name).__version__
        except Exception:
            out[name] = None
    return out


def write_replay(check, seed, idx, scenario, res, tier, property_id=None):
    rdir = os.path.join(os.environ.get('VERIF_REPLAY_DIR') or os.path.join(VERIF_ROOT, 'replays'), property_id or check.id)
    os.makedirs(rdir, exist_ok=True)
    path = os.path.join(rdir, '%d-%d.json' % (seed, idx))
    doc = {'property': check.id, 'claims': property_id or check.id, 'invariant': res['invariant'], 'signature': res.get('signature'),
           'seed': seed, 'run': idx, 'tier': tier, 'world': check.world, 'scenario': scenario,
           'expected': res.get('expected'), 'actual': res.get('actual'), 'detail': res.get('detail'),
           'events_tail': res.get('events_tail'), 'versions': versions()}
    with open(path, 'w') as handle:
        json.dump(doc, handle, indent=1, default=_default)
    return path


def run_check(cid, tier, seed, out=sys.stdout):
    """Run a registered check (or, for a composite, its parts) and write evidence/<property>.json."""
    check = get_check(cid)
    parts = getattr(check, 'parts', None)
    if not parts:
        code, evidence = run_single(cid, tier, seed, out)
        write_evidence(evidence)
        return code
    codes = []
    evs = []
    for part in parts:
        code, ev = run_single(part, tier, seed, out, property_id=cid)
        codes.append(code)
        evs.append(ev)
    merged = dict(evs[0])
    cov = dict(evs[0]['coverage'])
    cov['parts'] = {part: ev['coverage'] for part, ev in zip(parts, evs)}
    cov['state_measure'] = ' || '.join('[%s] %s' % (part, ev['coverage'].get('state_measure', '')) for part, ev in zip(parts, evs))
    for key in ('evaluations', 'distinct_nontrivial', 'runs', 'runs_requested', 'distinct_scenarios', 'distinct_states'):
        cov[key] = sum(ev['coverage'].get(key, 0) for ev in evs)
    cov['samples'] = [smp for ev in evs for smp in ev['coverage']['samples'][:2]]
    cov['rule'] = ' || '.join('[%s] %s' % (part, ev['coverage']['rule']) for part, ev in zip(parts, evs))
    for key in ('faults_fired', 'probes', 'counters', 'known_findings_hit'):
        tot = collections.Counter()
        for ev in evs:
            tot.update(ev['coverage'].get(key, {}))
        cov[key] = dict(sorted(tot.items()))
    cov['probes_at_zero'] = sorted(set(p for ev in evs for p in ev['coverage'].get('probes_at_zero', [])))
    cov['real_components'] = sorted(set(c for ev in evs for c in ev['coverage'].get('real_components', [])))
    cov['stub_components'] = sorted(set(c for ev in evs for c in ev['coverage'].get('stub_components', [])))
    cov['determinism'] = {k: sum(ev['coverage']['determinism'][k] for ev in evs) for k in ('seeds_rerun', 'mismatches')}
    merged['coverage'] = cov
    merged['assumptions'] = sorted(set(a for ev in evs for a in ev.get('assumptions', [])))
    merged['wall_s'] = round(sum(ev['wall_s'] for ev in evs), 2)
    merged['violations'] = sum(ev['violations'] for ev in evs)
    write_evidence(merged)
    if 1 in codes:
        return 1
    return max(codes)


def write_evidence(evidence):
    edir = os.environ.get('VERIF_EVIDENCE_DIR') or os.path.join(VERIF_ROOT, 'evidence')
    os.makedirs(edir, exist_ok=True)
    with open(os.path.join(edir, '%s.json' % evidence['property_id']), 'w') as handle:
        json.dump(evidence, handle, indent=1, default=_default)
        handle.write('\n')


def run_single(cid, tier, seed, out=sys.stdout, property_id=None):
    check = get_check(cid)
    property_id = property_id or cid
    t0 = time.time()
    bud = check.budgets(tier)
    runs = int(os.environ.get('VERIF_RUNS', bud['runs']))
    workers = int(os.environ.get('VERIF_WORKERS', bud.get('workers', min(16, os.cpu_count() or 1))))
    wall_cap = float(os.environ.get('VERIF_WALL', bud.get('wall', 3600)))
    print('SEED %d check=%s tier=%s runs=%d workers=%d' % (seed, cid, tier, runs, workers), file=out, flush=True)
    findings = load_findings()

    indices = list(range(runs))
    chunks = [indices[i:i + check.chunk] for i in range(0, len(indices), check.chunk)]
    results = {}
    harness = []
    timed_out = False
    pool = _pool(workers, check)
    try:
        futs = {pool.submit(_run_chunk, cid, seed, tier, ch): ch for ch in chunks}
        deadline = t0 + wall_cap
        pending = set(futs)
        while pending:
            done, pending = cf.wait(pending, timeout=max(0.1, min(30, deadline - time.time())),
                                    return_when=cf.FIRST_COMPLETED)
            for fut in done:
                try:
                    for idx, scen, res, sdig, sample in fut.result():
                        results[idx] = (scen, res, sdig, sample)
                except Exception as err:
                    harness.append('worker died on runs %s: %r' % (futs[fut][:3], err))
            if time.time() > deadline and pending:
                timed_out = True
                for fut in pending:
                    fut.cancel()
                break
    finally:
        if timed_out or harness:
            _kill_pool(pool)
        else:
            pool.shutdown()

    # ------------------------------------------------------------ aggregate
    agg = Stats()
    scen_digests = set()
    nontrivial_digests = set()
    samples = []
    violations = []
    known_hits = collections.Counter()
    log_digest = hashlib.sha256()
    inconclusive = []
    for idx in sorted(results):
        scen, res, sdig, sample = results[idx]
        st = res.get('stats') or {}
        agg.execs += st.get('execs', 1)
        agg.faults.update(st.get('faults', {}))
        agg.probes.update(st.get('probes', {}))
        agg.counters.update(st.get('counters', {}))
        agg.states.update(st.get('states', []))
        d = sdig
        scen_digests.add(d)
        if st.get('nontrivial'):
            nontrivial_digests.add(d)
            if len(samples) < 3 and sample is not None:
                samples.append({'run': idx, 'scenario': sample, 'verdict': res['verdict']})
        log_digest.update(('%d:%s:%s;' % (idx, res['verdict'], res.get('digest'))).encode())
        if res['verdict'] == VIOLATION:
            entry = known_signature(findings, property_id, res.get('signature'))
            if entry is not None:
                known_hits[entry['signature']] += 1
            else:
                violations.append(idx)
        elif res['verdict'] == HARNESS_TIMEOUT:
            # a run that did not answer within its budget is inconclusive, not a pass and not a violation
            inconclusive.append(idx)
        elif res['verdict'] == HARNESS_ERROR:
            harness.append('run %d: %s %s' % (idx, res['invariant'], (res.get('detail') or '')[-1500:]))

    # ------------------------------------------------------------ determinism self-test
    det = {'seeds_rerun': 0, 'mismatches': 0}
    ndet = int(os.environ.get('VERIF_DET', bud.get('determinism', 0)))
    if ndet and results and not timed_out and not harness:
        pick_rng = sub_rng(seed, cid, 'determinism')
        sample_idx = sorted(pick_rng.sample(sorted(results), min(ndet, len(results))))
        if getattr(check, 'mode', 'pool') == 'fleet':
            check.fresh_workers()
        pool2 = _pool(max(1, workers // 2 - 1) or 1, check)
        try:
            futs2 = [pool2.submit(_run_chunk, cid, seed, tier, [i]) for i in sample_idx]
            for fut in futs2:
                try:
                    for idx, scen, res, sdig, sample in fut.result(timeout=check.run_timeout * 2 + 120):
                        det['seeds_rerun'] += 1
                        a = (sdig, res['verdict'], res.get('digest'))
                        b = (results[idx][2], results[idx][1]['verdict'], results[idx][1].get('digest'))
                        if a != b:
                            det['mismatches'] += 1
                            harness.append('non-deterministic run %d: %r vs %r' % (idx, a, b))
                except Exception as err:
                    harness.append('determinism rerun failed: %r' % (err,))
        finally:
            pool2.shutdown()

    # ------------------------------------------------------------ violations: minimise + replay
    replay_paths = []
    reported = {}
    if violations:
        holder = {'pool': _pool(1, check)}
        try:
            def execute(scen):
                # a candidate may hang the (possibly broken) system under test: bound it and start over with a fresh worker
                fut = holder['pool'].submit(_exec_scenarios, cid, tier, [scen])
                try:
                    return fut.result(timeout=min(check.run_timeout, 90))[0]
                except Exception:
                    _kill_pool(holder['pool'])
                    holder['pool'] = _pool(1, check)
                    return result(HARNESS_TIMEOUT, invariant='minimiser-candidate-timeout')
            for idx in violations:
                scen, res = results[idx][0], results[idx][1]
                key = (res['invariant'], res.get('signature'))
                if key in reported:
                    reported[key]['count'] += 1
                    continue
                if len(reported) >= 5:
                    reported.setdefault(('more', None), {'count': 0, 'path': None})['count'] += 1
                    continue
                try:
                    small, used = minimise(check, scen, res, execute)
                    res_small = execute(small)
                    if res_small['verdict'] != VIOLATION or res_small['invariant'] != res['invariant']:
                        small, res_small = scen, res
                except Exception as err:
                    harness.append('minimiser failed on run %d: %r' % (idx, err))
                    small, res_small = scen, res
                path = write_replay(check, seed, idx, small, res_small, tier, property_id)
                reported[key] = {'count': 1, 'path': path}
                replay_paths.append(path)
                print('VIOLATION property=%s replay=%s' % (property_id, path), file=out)
                print('  invariant=%s signature=%s' % (res_small['invariant'], res_small.get('signature')), file=out)
                print('  expected=%s' % (json.dumps(res_small.get('expected'), default=_default)[:600],), file=out)
                print('  actual=%s' % (json.dumps(res_small.get('actual'), default=_default)[:600],), file=out)
        finally:
            _kill_pool(holder['pool'])

    for entry in findings.get('findings', []):
        if entry['property'] == property_id and (known_hits.get(entry['signature'])
                                                 or entry.get('part', cid) == cid):
            print('KNOWN-FINDING: property=%s %s (signature=%s, reproduced %d times in this run)' % (
                property_id, entry['what'], entry['signature'], known_hits.get(entry['signature'], 0)), file=out)

    wall = time.time() - t0
    missing_probes = [p for p in check.probes_expected if not agg.probes.get(p)]
    for p in missing_probes:
        print('REACH-WARNING: probe %s stayed at zero' % p, file=out)
    coverage = {
        'evaluations': agg.execs,
        'distinct_nontrivial': len(nontrivial_digests),
        'rule': check.rule,
        'samples': samples or [{'note': 'no non-trivial sample'}],
        'runs': len(results), 'runs_requested': runs,
        'distinct_scenarios': len(scen_digests),
        'distinct_states': len(agg.states),
        'state_measure': getattr(check, 'state_measure', ''),
        'faults_fired': dict(sorted(agg.faults.items())),
        'probes': dict(sorted(agg.probes.items())),
        'probes_at_zero': missing_probes,
        'counters': dict(sorted(agg.counters.items())),
        'runs_per_hour': int(len(results) / wall * 3600) if wall > 0 else 0,
        'executions_per_hour': int(agg.execs / wall * 3600) if wall > 0 else 0,
        'simulated_time': 'not applicable: the system under test has no clock, timer or deadline',
        'seeds': {'VERIF_SEED': seed, 'run_indices': [0, runs - 1]},
        'real_components': check.real_components,
        'stub_components': check.stub_components,
        'known_findings_hit': dict(known_hits),
        'determinism': det,
        'history_digest': log_digest.hexdigest()[:16],
        'workers': workers,
        'exhaustive': False,
        'harness_problems': harness[:10],
        'inconclusive_runs': inconclusive[:50],
        'timed_out': timed_out,
    }
    evidence = {'property_id': property_id, 'tier': tier, 'seed': seed, 'level': check.level,
                'coverage': coverage, 'assumptions': check.assumptions, 'wall_s': round(wall, 2),
                'violations': len(violations)}

    print('SUMMARY check=%s runs=%d executions=%d distinct_nontrivial=%d states=%d violations=%d known=%d '
          'harness=%d wall=%.1fs' % (cid, len(results), agg.execs, len(nontrivial_digests), len(agg.states),
                                     len(violations), sum(known_hits.values()), len(harness), wall), file=out)
    print('FAULTS %s' % json.dumps(dict(sorted(agg.faults.items()))), file=out)
    print('PROBES %s' % json.dumps(dict(sorted(agg.probes.items()))), file=out)
    if inconclusive:
        print('INCONCLUSIVE %d run(s) gave no answer within the per-run budget: %s' % (len(inconclusive), inconclusive[:20]), file=out)
        if len(inconclusive) > max(4, len(results) // 25):
            harness.append('too many inconclusive runs: %d of %d' % (len(inconclusive), len(results)))
    if violations:
        return 1, evidence
    if timed_out:
        # the wall-clock budget of the tier is exhausted: what was explored counts, the rest was not run
        print('BUDGET wall cap %.0fs reached with %d of %d runs done' % (wall_cap, len(results), runs), file=out)
        if len(results) < runs // 5:
            harness.append('wall cap reached with less than a fifth of the runs done')
    if harness:
        for line in harness[:10]:
            print('HARNESS-ERROR %s' % line, file=out)
        return 3, evidence
    return 0, evidence


def replay(path, out=sys.stdout):
    with open(path) as handle:
        doc = json.load(handle)
    cid = doc['property']
    check = get_check(cid)
    claims = doc.get('claims', cid)
    tier = doc.get('tier', 'quick')
    print('REPLAY property=%s invariant=%s seed=%s run=%s' % (cid, doc['invariant'], doc['seed'], doc['run']), file=out)
    pool = _pool(1, check)
    try:
        res = pool.submit(_exec_scenarios, cid, tier, [doc['scenario']]).result(timeout=check.run_timeout * 2 + 120)[0]
    finally:
        pool.shutdown()
    print('  verdict=%s invariant=%s signature=%s' % (res['verdict'], res['invariant'], res.get('signature')), file=out)
    print('  expected=%s' % (json.dumps(res.get('expected'), default=_default)[:1500],), file=out)
    print('  actual=%s' % (json.dumps(res.get('actual'), default=_default)[:1500],), file=out)
    if res['verdict'] == VIOLATION and res['invariant'] == doc['invariant']:
        same = (json.dumps(res.get('actual'), default=_default, sort_keys=True)
                == json.dumps(doc.get('actual'), default=_default, sort_keys=True))
        findings = load_findings()
        if known_signature(findings, claims, res.get('signature')):
            print('KNOWN-FINDING: property=%s signature=%s' % (claims, res.get('signature')), file=out)
        print('VIOLATION property=%s replay=%s%s' % (claims, path, '' if same else ' (values differ from recording)'), file=out)
        return 1
    if res['verdict'] in (HARNESS_ERROR, HARNESS_TIMEOUT):
        print('HARNESS-ERROR %s' % (res.get('detail'),), file=out)
        return 3
    print('REPLAY-MISMATCH recorded invariant %s did not fail again' % doc['invariant'], file=out)
    return 2

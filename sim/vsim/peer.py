"""The DSSP peer process (World P, stub - DESIGN.md appendix D).

``vermouth.dssp.dssp.subprocess`` is replaced by an instance of ``FakeDSSP``.  The peer
reads the PDB file the real code wrote for it with its own column reader, groups
consecutive ATOM records into residues exactly as given (no chemistry), and answers in
DSSP format with one structure letter per residue drawn from the run PRNG.  At most one
fault per run.
"""
import os

from . import core

LETTERS = 'HHHHHBEEEGITS  '


class Completed:
    def __init__(self, returncode, stdout, stderr):
        self.returncode = returncode
        self.stdout = stdout
        self.stderr = stderr


class FakeDSSP:
    PIPE = -1
    DEVNULL = -3

    def __init__(self, spec, child):
        self.spec = spec
        self.child = child
        self.calls = []          # one entry per structure call: dict(residues=[(chain, resid, icode)], letters=[...], delivered=...)
        self.rng = core.sub_rng(spec.get('seed', 0), 'peer')
        self.fault = spec.get('fault')      # [kind, arg] or None
        self.fault_call = spec.get('fault_call', 0)
        self.ncalls = 0
        self.consulted = 0          # any call of run(): version query or structure call

    def run(self, args, **kwargs):
        text_mode = kwargs.get('universal_newlines') or kwargs.get('text')
        self.consulted += 1
        stats = self.child.stats
        if self.fault and self.fault[0] == 'missing':
            stats.faults['peer:missing'] += 1
            raise FileNotFoundError(2, 'No such file or directory', args[0])
        if '--version' in args:
            version = self.spec.get('version', '3.0.0')
            if self.fault and self.fault[0] == 'version':
                version = self.fault[1]
                stats.faults['peer:version:%s' % ('garbage' if not any(c.isdigit() for c in version) else version)] += 1
            out = 'mkdssp version %s\n' % version
            return Completed(0, out if text_mode else out.encode(), '' if text_mode else b'')
        path = args[args.index('-i') + 1]
        with open(path) as handle:
            lines = handle.read().splitlines()
        residues = []
        names = []
        for line in lines:
            if line.startswith(('ATOM', 'HETATM')):
                key = (line[21], line[22:26].strip(), line[26], line[17:20])
                if not residues or residues[-1] != key:
                    residues.append(key)
                    names.append(set())
                names[-1].add(line[12:16].strip())
        # like the real program, the peer does not report residues whose backbone is incomplete in the file it was given
        complete = [all(n in have for n in ('N', 'CA', 'C', 'O')) for have in names]
        letters = [self.rng.choice(LETTERS) for _ in residues]
        mode = self.spec.get('mode')
        if mode == 'helix':
            letters = ['H' if self.rng.random() < 0.8 else self.rng.choice('GIT ') for _ in residues]
        call = {'residues': [list(r) for r in residues], 'letters': list(letters), 'path': os.path.basename(path)}
        this_call = self.ncalls
        self.ncalls += 1
        self.calls.append(call)
        out_lines = ['==== Secondary Structure Definition by the program DSSP, simulated peer ==== DATE=2024-01-01        .',
                     'REFERENCE W. KABSCH AND C.SANDER, BIOPOLYMERS 22 (1983) 2577-2637                                      .',
                     '  %3d  1  0  0  0 TOTAL NUMBER OF RESIDUES, NUMBER OF CHAINS                                            .' % len(residues),
                     '  #  RESIDUE AA STRUCTURE BP1 BP2  ACC     N-H-->O    O-->H-N    N-H-->O    O-->H-N    TCO  KAPPA ALPHA  PHI   PSI    X-CA   Y-CA   Z-CA']
        body = []
        for i, (res, letter, ok) in enumerate(zip(residues, letters, complete), 1):
            if not ok:
                continue
            chain, resid, icode, resname = res
            body.append('%5d %4s%1s%1s %1s  %1s              0   0  100      0, 0.0     0, 0.0     0, 0.0     0, 0.0   0.000 360.0 360.0 360.0 360.0    0.0    0.0    0.0'
                        % (i, resid[-4:], icode, chain, 'A', letter))
        fault = self.fault if (self.fault and this_call == self.fault_call) else None
        delivered = [l for l, ok in zip(letters, complete) if ok]
        if not all(complete):
            stats.faults['peer:incomplete-backbone'] += 1
            call['omitted'] = complete.count(False)
        returncode = 0
        stderr = ''
        if fault:
            kind = fault[0]
            if kind == 'exit':
                returncode = 1
                stderr = 'simulated DSSP failure'
                stats.faults['peer:exit'] += 1
                delivered = None
            elif kind == 'drop' and body:
                k = fault[1] % len(body)
                del body[k]
                del delivered[k]
                stats.faults['peer:drop'] += 1
            elif kind == 'dup' and body:
                k = fault[1] % len(body)
                body.insert(k, body[k])
                delivered.insert(k, delivered[k])
                stats.faults['peer:dup'] += 1
            elif kind == 'noheader':
                out_lines = out_lines[:3]
                stats.faults['peer:noheader'] += 1
                delivered = None
            elif kind == 'badletter' and body:
                k = fault[1] % len(body)
                body[k] = body[k][:16] + 'X' + body[k][17:]
                stats.faults['peer:badletter'] += 1
                delivered = None
            elif kind == 'breaks' and body:
                k = 1 + fault[1] % len(body)
                body.insert(k, '%5d        !              0   0    0      0, 0.0     0, 0.0     0, 0.0     0, 0.0   0.000 360.0 360.0 360.0 360.0    0.0    0.0    0.0' % (k + 1))
                stats.faults['peer:breaks'] += 1
        text = '\n'.join(out_lines + body) + '\n'
        if fault and fault[0] == 'truncate':
            header_len = len('\n'.join(out_lines)) + 1
            if fault[2] == 'line':
                # cut on a line boundary inside the body
                nkeep = fault[1] % (len(body) + 1)
                text = '\n'.join(out_lines + body[:nkeep]) + '\n'
            else:
                cut = header_len + fault[1] % max(1, len(text) - header_len)
                text = text[:cut]
            stats.faults['peer:truncate:%s' % fault[2]] += 1
            # what a correct reader can still know
            got = []
            complete = True
            for line in text.split('\n')[len(out_lines):]:
                if not line:
                    continue
                if len(line) >= 17:
                    got.append(line[16])
                else:
                    complete = False
            delivered = got if complete else None
        call['delivered'] = delivered
        call['fault'] = fault or (['incomplete-backbone'] if not all(complete) else None)
        if returncode:
            return Completed(returncode, '' if text_mode else b'', stderr if text_mode else stderr.encode())
        return Completed(0, text if text_mode else text.encode(), '' if text_mode else b'')

"""C17 oracle: per-residue annotations and their translation to Martini classes.

Evaluated at the stage boundaries of the real processors inside the simulated run:
``AnnotateResidues`` (-ss / -collagen), ``AnnotateDSSP`` (with the simulated peer) and
``AnnotateMartiniSecondaryStructures``.  Independent pieces: the residue enumeration
(groups of (chain, resid, insertion code, resname) ordered by their lowest node key, i.e. input order), the three
length rules of the statement, and a run-length transcription of the helix rules.
"""
import collections

TABLE = {'H': 'H', 'G': 'H', 'I': 'H', '1': 'H', '2': 'H', '3': 'H', 'B': 'E', 'E': 'E', 'T': 'T', 'S': 'S', 'C': 'C'}


def martini_classes(seq):
    """DSSP classes -> Martini classes (length preserving)."""
    cg = [TABLE[c] for c in seq]
    out = list(cg)
    n = len(cg)
    i = 0
    while i < n:
        if cg[i] != 'H':
            i += 1
            continue
        j = i
        while j < n and cg[j] == 'H':
            j += 1
        length = j - i
        if length <= 4:
            run = '3' * length
        elif length == 5:
            run = '13332'
        elif length == 6:
            run = '113322'
        elif length == 7:
            run = '1113222'
        else:
            run = '1111' + 'H' * (length - 8) + '2222'
        out[i:j] = list(run)
        i = j
    return out


def residues_of(mol):
    """[(identity, [node keys])] in order of first appearance."""
    order = []
    groups = collections.OrderedDict()
    for key in mol.nodes:
        a = mol.nodes[key]
        ident = (a.get('chain'), a.get('resid'), a.get('insertion_code'), a.get('resname'))
        if ident not in groups:
            groups[ident] = []
            order.append(ident)
        groups[ident].append(key)
    # residues are counted in the order of the input: by their lowest node key (atoms that were re-added by
    # the repair step carry higher keys, and the node order itself may have been permuted)
    try:
        order.sort(key=lambda ident: min(groups[ident]))
    except TypeError:
        pass
    return [(ident, groups[ident]) for ident in order]


def contiguous(mol):
    """True when node order never returns to an earlier residue (otherwise 'k-th residue' is ambiguous)."""
    seen = set()
    last = None
    for key in mol.nodes:
        a = mol.nodes[key]
        ident = (a.get('chain'), a.get('resid'), a.get('insertion_code'), a.get('resname'))
        if ident != last:
            if ident in seen:
                return False
            seen.add(ident)
            last = ident
    return True


class Oracle:
    def __init__(self, child):
        self.child = child
        self.before = {}

    # -- AnnotateResidues ------------------------------------------------------
    def begin_annotate_residues(self, proc, system, sequence=None):
        # the sequence as it was handed to the processor (a reused processor object must not have changed it)
        self.given_sequence = list(sequence) if sequence is not None else list(proc.sequence)
        selected = []
        snap = []
        for mol in system.molecules:
            sel = bool(proc.molecule_selector(mol))
            selected.append(sel)
            snap.append({k: mol.nodes[k].get(proc.attribute, None) for k in mol.nodes})
        self.before['AnnotateResidues'] = (selected, snap, [residues_of(m) for m in system.molecules],
                                           [contiguous(m) for m in system.molecules])

    def end_annotate_residues(self, proc, system, raised):
        child = self.child
        selected, snap, residues, contig = self.before.pop('AnnotateResidues')
        seq = list(self.given_sequence)
        lengths = [len(r) for r, s in zip(residues, selected) if s]
        total = sum(lengths)
        stats = child.stats
        stats.probes['ss_annotate_residues'] += 1
        if any(not s for s in selected) and any(selected):
            stats.probes['ss_unselected_present'] += 1
            first_sel = selected.index(True)
            if any(not s for s in selected[:first_sel]):
                stats.probes['ss_unselected_before_selected'] += 1
        if not lengths:
            # nothing is selected: the statement does not say whether a non-empty sequence is then an error
            stats.probes['ss_nothing_selected'] += 1
            if not raised:
                for j, mol in enumerate(system.molecules):
                    changed = [k for k in mol.nodes if mol.nodes[k].get(proc.attribute, None) != snap[j].get(k)]
                    if changed:
                        child.fail('C17', 'unselected-molecule-annotated', expected='molecule %d left untouched' % j,
                                   actual={'nodes': changed[:5]}, signature='unselected-molecule-annotated')
            return
        # expected per the statement's three rules
        if lengths and len(seq) == lengths[0] and len(set(lengths)) == 1:
            expected = seq * len(lengths)
            stats.probes['ss_rule_one_molecule_long'] += 1
        elif len(seq) == 1:
            expected = seq * total
            stats.probes['ss_rule_one_element'] += 1
        elif len(seq) == total and lengths:
            expected = seq
            stats.probes['ss_rule_full_length'] += 1
        else:
            expected = None
            stats.probes['ss_rule_mismatch'] += 1
        if not all(c for c, s in zip(contig, selected) if s):
            # re-added atoms sit at the end of the node order; residues are still enumerated by first appearance
            stats.probes['ss_residues_with_appended_atoms'] += 1
        if expected is None:
            if not raised:
                child.fail('C17', 'length-mismatch-accepted', expected='an error for a sequence of length %d over %s residues'
                           % (len(seq), lengths), actual='annotation finished',
                           signature='length-mismatch-accepted')
            return
        if raised:
            child.fail('C17', 'valid-sequence-rejected', expected='sequence of length %d accepted for molecules of %s residues'
                       % (len(seq), lengths), actual=repr(raised),
                       signature='valid-sequence-rejected:unselected-first' if (any(not s for s in selected)) else 'valid-sequence-rejected')
            return
        pos = 0
        for j, mol in enumerate(system.molecules):
            if not selected[j]:
                changed = [k for k in mol.nodes if mol.nodes[k].get(proc.attribute, None) != snap[j].get(k)]
                if changed:
                    child.fail('C17', 'unselected-molecule-annotated', expected='molecule %d left untouched' % j,
                               actual={'nodes': changed[:5], 'value': mol.nodes[changed[0]].get(proc.attribute)},
                               signature='unselected-molecule-annotated')
                continue
            for ident, keys in residues[j]:
                want = expected[pos]
                pos += 1
                got = set(mol.nodes[k].get(proc.attribute) for k in keys if k in mol.nodes)
                if got != {want}:
                    child.fail('C17', 'misplaced-annotation', expected={'molecule': j, 'residue': list(ident), 'value': want},
                               actual=sorted(map(repr, got)), signature='misplaced-annotation')
                    return

    # -- AnnotateDSSP ------------------------------------------------------------
    def begin_annotate_dssp(self, proc, system):
        self.before['AnnotateDSSP'] = ([residues_of(m) for m in system.molecules], len(self.child.peer.calls) if self.child.peer else 0)
        self.consulted_before = self.child.peer.consulted if self.child.peer else 0

    def end_annotate_dssp(self, proc, system, raised):
        child = self.child
        peer = child.peer
        if peer is None:
            return
        residues, ncalls0 = self.before.pop('AnnotateDSSP')
        if peer.consulted == self.consulted_before:
            # no molecule needed the peer (e.g. the system is empty after repair): nothing to check
            self.child.stats.probes['ss_peer_not_needed'] += 1
            return
        stats = child.stats
        stats.probes['ss_annotate_dssp'] += 1
        calls = peer.calls[ncalls0:]
        # break lines and an unsupported-but-readable version are legal peer behaviour, not failures
        any_fault = [c for c in calls if c.get('fault') and c['fault'][0] not in ('breaks',)]
        must_fail = [c for c in calls if c.get('fault') and c.get('delivered') is None]
        if peer.fault and peer.fault[0] in ('missing',):
            must_fail = [True]
        if peer.fault and peer.fault[0] == 'version' and not any(ch.isdigit() for ch in peer.fault[1]):
            must_fail = [True]
        if raised:
            if not any_fault and not must_fail and not (peer.fault and peer.fault[0] in ('missing', 'version', 'exit')):
                child.fail('C17', 'dssp-stage-raised', expected='fault-free peer: annotation completes', actual=repr(raised))
            else:
                stats.probes['ss_peer_fault_rejected'] += 1
            return
        if must_fail:
            child.fail('C17', 'peer-failure-ignored', expected='an error when the peer fails or its output cannot be parsed',
                       actual='annotation finished', detail={'fault': peer.fault})
            return
        # the run finished: every residue must carry the letter the peer printed for it
        from vermouth.selectors import is_protein
        ci = 0
        for j, mol in enumerate(system.molecules):
            if not is_protein(mol):
                continue
            has_pos = [k for k in mol.nodes if mol.nodes[k].get('position') is not None]
            if not has_pos:
                continue
            if ci >= len(calls):
                child.fail('C17', 'peer-not-consulted', expected='one peer call per protein molecule', actual=len(calls))
                return
            call = calls[ci]
            ci += 1
            delivered = call.get('delivered')
            intended = {}
            dup = set()
            for res, letter in zip(call['residues'], call['letters']):
                ident = (res[0], res[1], res[2])
                if ident in intended:
                    dup.add(ident)
                intended[ident] = 'C' if letter == ' ' else letter
            if delivered is not None and len(delivered) != len(call['letters']):
                if len(delivered) == 1:
                    stats.probes['ss_peer_one_element_repeat'] += 1     # documented repetition of a one-element sequence
                    continue
                child.fail('C17', 'shifted-assignment', expected='an error: the peer delivered %d letters for %d residues'
                           % (len(delivered), len(call['letters'])), actual='annotation finished',
                           signature='shifted-assignment', detail={'fault': call.get('fault')})
                return
            for ident, keys in residues[j]:
                chain, resid, icode, _resname = ident
                pid = ((chain or ' ')[:1] or ' ', str(resid % 10000 if isinstance(resid, int) else resid)[-4:], (icode or ' ')[:1] or ' ')
                if pid in dup or pid not in intended:
                    continue
                got = set(mol.nodes[k].get('aasecstruct') for k in keys if k in mol.nodes)
                if got != {intended[pid]}:
                    child.fail('C17', 'misplaced-annotation', expected={'molecule': j, 'residue': list(pid), 'value': intended[pid]},
                               actual=sorted(map(repr, got)), signature='misplaced-annotation:dssp',
                               detail={'fault': call.get('fault')})
                    return
            stats.probes['ss_dssp_molecule_checked'] += 1

    # -- AnnotateMartiniSecondaryStructures ------------------------------------------
    def begin_martini(self, proc, system):
        seqs = []
        for mol in system.molecules:
            res = residues_of(mol)
            seqs.append([mol.nodes[keys[0]].get('aasecstruct') for ident, keys in res])
        self.before['Martini'] = ([residues_of(m) for m in system.molecules], seqs, [contiguous(m) for m in system.molecules])

    def end_martini(self, proc, system, raised):
        child = self.child
        residues, seqs, contig = self.before.pop('Martini')
        stats = child.stats
        for j, mol in enumerate(system.molecules):
            seq = seqs[j]
            if all(s is None for s in seq):
                continue
            if any(s is None for s in seq):
                if not raised:
                    child.fail('C17', 'partial-annotation-accepted', expected='an error', actual='translation finished')
                return
            if raised:
                child.fail('C17', 'translation-raised', expected='translation of %r' % ''.join(seq), actual=repr(raised))
                return
            if any(s not in TABLE for s in seq):
                continue
            want = martini_classes(seq)
            got = [mol.nodes[keys[0]].get('cgsecstruct') for ident, keys in residues[j]]
            stats.probes['ss_translation_checked'] += 1
            runs = max((len(r) for r in ''.join('H' if TABLE[s] == 'H' else '.' for s in seq).split('.')), default=0)
            if runs >= 8:
                stats.probes['ss_long_helix'] += 1
            elif runs >= 5:
                stats.probes['ss_medium_helix'] += 1
            elif runs >= 1:
                stats.probes['ss_short_helix'] += 1
            if got != want:
                child.fail('C17', 'translation', expected=''.join(want), actual=''.join(map(str, got)),
                           detail={'dssp': ''.join(seq)}, signature='translation')
                return
            for ident, keys in residues[j]:
                vals = set(mol.nodes[k].get('cgsecstruct') for k in keys)
                if len(vals) != 1:
                    child.fail('C17', 'translation-not-per-residue', expected='one class per residue', actual=sorted(map(repr, vals)))
                    return


def evaluate(child, argv, stats):
    return

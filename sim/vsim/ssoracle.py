"""C17 oracle (placeholder until the DSSP peer world is built)."""


def evaluate(child, argv, stats):
    return

"""check <ID> [--tier quick|thorough] [--replay FILE]"""
import argparse
import os
import sys


def main(argv=None):
    parser = argparse.ArgumentParser(prog='check')
    parser.add_argument('property')
    parser.add_argument('--tier', default=os.environ.get('VERIF_TIER', 'quick'), choices=['quick', 'thorough'])
    parser.add_argument('--replay')
    args = parser.parse_args(argv)
    from . import core, registry  # noqa: F401
    if args.replay:
        return core.replay(args.replay)
    seed = int(os.environ.get('VERIF_SEED', '0') or 0)
    return core.run_check(args.property, args.tier, seed)


if __name__ == '__main__':
    sys.exit(main())

"""World P, inside the forked child: one simulated martinize2 process (DESIGN.md 3.3).

The real ``entry()`` of /repo/bin/martinize2 runs unmodified.  The simulator owns its
environment: argv, working directory, temp dir, input text, hash seed (of the parent
worker), RNG seeds, DSSP peer, injected log records, file-system faults; and observes it
from outside: log records, pipeline stage boundaries, writer calls, audit events, exit
status, the directory tree.
All single-run invariants (C02, C03, C07, C08, C17) are evaluated here, so only a compact
result travels back; the canonical topology is returned for the group comparison of C11.
"""
import hashlib
import io
import json
import logging
import os
import random
import shutil
import sys
import traceback

from . import core, faultfs, itpcheck, structure, peval
from .faultfs import SimCrash

STATE = {}          # set by pworker: m2 module, preloaded force fields/mappings


class Recorder(logging.Handler):
    """Independent record of the log history of the run (S7)."""

    def __init__(self):
        super().__init__(level=1)
        self.records = []

    def emit(self, record):
        msg = None
        if record.levelno >= logging.WARNING:
            try:
                msg = record.getMessage()
            except Exception as err:  # a record whose formatting fails is still a record
                msg = '<unformattable: %r>' % (err,)
        self.records.append([record.levelno, getattr(record, 'type', 'general'), msg])


def system_digest(system):
    h = hashlib.sha256()
    try:
        mols = system.molecules
    except AttributeError:
        return 'n/a'
    h.update(str(len(mols)).encode())
    for mol in mols:
        h.update(('|%d,%d,%d' % (mol.number_of_nodes(), mol.number_of_edges(),
                                 sum(len(v) for v in mol.interactions.values()))).encode())
        names = sorted('%s:%s:%s:%s' % (a.get('chain'), a.get('resid'), a.get('resname'), a.get('atomname'))
                       for a in mol.nodes.values())
        h.update(';'.join(names).encode())
        h.update(repr(mol.meta.get('moltype')).encode())
    return h.hexdigest()[:12]


class Child:
    def __init__(self, task):
        self.task = task
        self.m2 = STATE['m2']
        self.stages = []
        self.failed = []
        self.stats = core.Stats()
        self.itp_calls = []       # (snapshot, text, handle name)
        self.same_moltype_texts = []
        self.leftover = None
        self.records_at_gate = None
        self.records_at_finalise = None
        self.n_records_before_gate = None
        self.counter_snapshot = None
        self.finalise_called = False
        self.finalise_outcome = None
        self.injected = []
        self.peer = None
        self.pdb_written = None
        self.system_at_write = None
        self.depth = {}
        from . import ssoracle
        self.ss = ssoracle.Oracle(self)

    def fail(self, prop, invariant, expected=None, actual=None, signature=None, detail=None):
        self.failed.append({'property': prop, 'invariant': invariant, 'expected': expected, 'actual': actual,
                            'signature': signature or invariant, 'detail': detail})

    # ------------------------------------------------------------------ set-up
    def prepare(self):
        task = self.task
        base = os.path.join(core.scratch_base(), 'vsim-P-%d' % os.getppid(), 'run-%d' % os.getpid())
        shutil.rmtree(base, ignore_errors=True)
        self.base = base
        self.cwd = os.path.join(base, 'cwd')
        self.tmpdir = os.path.join(base, 'cwd', 'tmpd')
        os.makedirs(self.tmpdir)
        self.pre = {}
        for name, data in task.get('cwd_pre', []):
            data = core.unb64(data)
            path = os.path.join(self.cwd, name)
            os.makedirs(os.path.dirname(path), exist_ok=True)
            with open(path, 'wb') as handle:
                handle.write(data)
            self.pre[name] = data
        lines = structure.build(task['structure'])
        if task.get('variant'):
            lines = structure.present(lines, task['variant'])
        self.input_lines = lines
        data = ('\n'.join(lines) + '\n').encode()
        with open(os.path.join(self.cwd, 'input.pdb'), 'wb') as handle:
            handle.write(data)
        self.pre['input.pdb'] = data
        for name, text in task.get('extra_files', []):
            with open(os.path.join(self.cwd, name), 'w') as handle:
                handle.write(text)
            self.pre[name] = text.encode()
        os.chdir(self.cwd)
        import tempfile
        import numpy
        tempfile.tempdir = self.tmpdir
        faultfs.deterministic_tempnames()
        faultfs.reset_tempnames()
        random.seed(task.get('rng_seed', 0))
        numpy.random.seed(task.get('rng_seed', 0) % (2 ** 32))

    def install(self):
        m2 = self.m2
        import vermouth
        import vermouth.gmx.itp
        import vermouth.file_writer as fw
        # log history
        self.recorder = Recorder()
        logger = logging.getLogger('vermouth')
        logger.addHandler(self.recorder)
        # a fresh counter state (the module-level COUNTER is process-global: reset what the parent may hold)
        m2.COUNTER.counts.clear()
        m2.CONSOLE_HANDLER.stream = open(os.devnull, 'w')
        # stage boundaries
        from vermouth.processors.processor import Processor
        seen = set()
        child = self

        def wrap_run_system(cls):
            real = cls.__dict__['run_system']
            if isinstance(real, staticmethod):
                func = real.__func__

                def wrapper(system, *args, **kwargs):
                    child.stage_begin(cls.__name__, system)
                    try:
                        out = func(system, *args, **kwargs)
                    except Exception:
                        child.depth[cls.__name__] -= 1
                        raise
                    child.stage_end(cls.__name__, out if out is not None else system)
                    return out
                cls.run_system = staticmethod(wrapper)
            elif isinstance(real, classmethod):
                return
            else:
                def wrapper(self_, system, *args, **kwargs):
                    name = type(self_).__name__
                    child.stage_begin(name, system, self_)
                    try:
                        out = real(self_, system, *args, **kwargs)
                    except Exception as err:
                        child.stage_raised(name, system, self_, err)
                        raise
                    child.stage_end(name, out if out is not None else system, self_)
                    return out
                cls.run_system = wrapper

        def walk(cls):
            for sub in cls.__subclasses__():
                if sub in seen:
                    continue
                seen.add(sub)
                if 'run_system' in sub.__dict__:
                    wrap_run_system(sub)
                walk(sub)
        if 'run_system' in Processor.__dict__:
            wrap_run_system(Processor)
        walk(Processor)
        # the accounting function (C08): observe what the real code computes
        real_ignore = m2.ignore_warnings_and_count

        def ignore_wrapper(counter, specifications, *args, **kwargs):
            child.n_records_before_gate = len(child.recorder.records)
            out = real_ignore(counter, specifications, *args, **kwargs)
            child.leftover = out
            child.records_at_gate = child.n_records_before_gate
            child.counter_snapshot = {int(lvl): dict(types) for lvl, types in counter.counts.items()}
            return out
        m2.ignore_warnings_and_count = ignore_wrapper
        # the ITP writer (C02 in World P, C03 iv)
        real_itp = vermouth.gmx.itp.write_molecule_itp

        def itp_wrapper(molecule, outfile, *args, **kwargs):
            buf = io.StringIO()
            real_itp(molecule, buf, *args, **kwargs)
            text = buf.getvalue()
            moltype = kwargs.get('moltype')
            try:
                snap = itpcheck.snapshot(molecule, moltype)
            except Exception as err:
                snap = {'error': repr(err)}
            try:
                target = os.readlink('/proc/self/fd/%d' % outfile.fileno())
            except Exception:
                target = None
            child.itp_calls.append({'snap': snap, 'text': text, 'file': target})
            outfile.write(text)
        vermouth.gmx.itp.write_molecule_itp = itp_wrapper
        self.real_itp = real_itp
        # topology writer: snapshot of what each molecule's ITP would be (C03 iv)
        real_top = m2.write_gmx_topology

        def top_wrapper(system, *args, **kwargs):
            child.system_at_write = system
            texts = []
            for mol in system.molecules:
                buf = io.StringIO()
                try:
                    real_itp(mol, buf)
                    texts.append([mol.meta.get('moltype'), buf.getvalue()])
                except Exception as err:
                    texts.append([mol.meta.get('moltype'), 'ERROR %r' % (err,)])
            child.same_moltype_texts = texts
            out = real_top(system, *args, **kwargs)
            child.pseudo_stage('write_gmx_topology', system)
            return out
        m2.write_gmx_topology = top_wrapper
        # the coordinate writer is the last step before the gate: a stage boundary for late log records
        real_write_pdb = vermouth.pdb.write_pdb

        def pdb_wrapper(system, *args, **kwargs):
            out = real_write_pdb(system, *args, **kwargs)
            if kwargs.get('defer_writing', True):
                child.pseudo_stage('write_pdb', system)
            return out
        vermouth.pdb.write_pdb = pdb_wrapper
        # C11 'rigid-generic': an arbitrary rigid motion applied in memory to what read_system returns
        mem = (self.task.get('variant') or {}).get('mem_rigid')
        if mem:
            import numpy
            real_read = m2.read_system
            matrix = numpy.array(mem['matrix'], dtype=float).reshape(3, 3)
            shift = numpy.array(mem['shift'], dtype=float)

            def read_wrapper(*args, **kwargs):
                system = real_read(*args, **kwargs)
                for mol in system.molecules:
                    for node in mol.nodes.values():
                        if node.get('position') is not None:
                            node['position'] = matrix @ numpy.asarray(node['position'], dtype=float) + shift
                return system
            m2.read_system = read_wrapper
        # finalisation
        self.fs = faultfs.FaultFS(self.cwd, self.tmpdir)
        real_write = fw.DeferredFileWriter.write

        def write_wrapper(self_):
            child.finalise_called = True
            child.records_at_finalise = len(child.recorder.records)
            child.tree_before_finalise = peval.read_tree(child.cwd, child.tmpdir)
            child.check_i1('before finalise')
            fsf = child.task.get('fs') or {}
            plan = {}
            if fsf.get('crash_at'):
                plan[int(fsf['crash_at'])] = ['crash']
            if fsf.get('error_at'):
                plan[int(fsf['error_at'][0])] = ['error', fsf['error_at'][1]]
            if fsf.get('torn_at'):
                plan[int(fsf['torn_at'][0])] = ['torn', fsf['torn_at'][1]]
            child.fs.arm(plan=plan, xdev=bool(fsf.get('xdev')), finalising=True)
            try:
                real_write(self_)
                child.finalise_outcome = 'done'
            except SimCrash:
                child.finalise_outcome = 'crash'
                raise
            except BaseException as err:
                child.finalise_outcome = 'error:%s' % type(err).__name__
                raise
            finally:
                child.fs_log = list(child.fs.log)
                for k, v in child.fs.fired.items():
                    child.stats.faults[k] += v
                child.fs.disarm()
                child.fs.arm(finalising=False)
        fw.DeferredFileWriter.write = write_wrapper
        writer = fw.DeferredFileWriter()
        writer.open_files.clear()
        # DSSP peer
        if self.task.get('peer') is not None:
            from . import peer
            self.peer = peer.FakeDSSP(self.task['peer'], self)
            import vermouth.dssp.dssp as dssp_mod
            dssp_mod.subprocess = self.peer
        # quiet stdout
        self.devnull = open(os.devnull, 'w')
        sys.stdout = self.devnull
        sys.stderr = self.devnull

    # ------------------------------------------------------------------ observation
    SS_HOOKS = {'AnnotateResidues': 'annotate_residues', 'AnnotateDSSP': 'annotate_dssp',
                'AnnotateMartiniSecondaryStructures': 'martini'}

    def stage_begin(self, name, system, proc=None):
        # a processor's run_system may call the base class' run_system: only the outermost call is a stage
        self.depth[name] = self.depth.get(name, 0) + 1
        hook = self.SS_HOOKS.get(name)
        if hook and proc is not None and self.depth[name] == 1:
            getattr(self.ss, 'begin_' + hook)(proc, system)

    def stage_raised(self, name, system, proc, err):
        self.depth[name] -= 1
        hook = self.SS_HOOKS.get(name)
        if hook and proc is not None and self.depth[name] == 0:
            getattr(self.ss, 'end_' + hook)(proc, system, err)

    def stage_end(self, name, system, proc=None):
        self.depth[name] -= 1
        if self.depth[name] > 0:
            return
        hook = self.SS_HOOKS.get(name)
        if hook and proc is not None:
            getattr(self.ss, 'end_' + hook)(proc, system, None)
        self.stages.append([name, system_digest(system)])
        self.check_i1('after stage %s' % name)
        # inject log records at this stage boundary (S7, fault kind 'warn')
        ordinal = len(self.stages)
        for inj in self.task.get('inject_model', []):
            at, level, count = inj
            if at == ordinal and getattr(system, 'molecules', None):
                # what a force field's [ warning ] / [ error ] section does: an entry the CLI logs when it writes output
                mol = system.molecules[0]
                for i in range(count):
                    mol.log_entries[level]['injected model entry %d' % i].append({})
                self.injected.append(inj)
                self.stats.faults['warn-model:%d' % level] += count
        for inj in self.task.get('inject', []):
            at, level, type_, count = inj
            if at == ordinal:
                logger = self.m2.LOGGER
                for _ in range(count):
                    logger.log(level, 'injected by the simulator at stage {}', ordinal, type=type_)
                self.injected.append(inj)
                self.stats.faults['warn:%d' % level] += count

    def pseudo_stage(self, name, system):
        self.depth[name] = 1
        self.stage_end(name, system)

    def exempt_paths(self):
        out = set()
        argv = self.task['argv']
        for flag in ('-write-graph', '-write-repair', '-write-canon'):
            if flag in argv:
                out.add(os.path.normpath(argv[argv.index(flag) + 1]))
        return out

    def check_i1(self, where):
        """Until finalisation starts nothing but temp files, explicitly requested debug dumps and the
        DSSP peer's scratch input may change in the working directory."""
        exempt = self.exempt_paths()
        bad = []
        for ev in self.fs.pre_finalise_mutations:
            paths = [p for p in ev[1:] if not p.startswith('tmpd')]
            paths = [p for p in paths if os.path.normpath(p) not in exempt and not os.path.basename(p).startswith('dssp_in_')]
            if paths:
                bad.append(ev)
        if bad and not self.finalise_called:
            self.fail('C07', 'I1-deferral-monitor', expected='no write to the working directory before finalisation',
                      actual=bad[:4], detail=where)
            self.fs.pre_finalise_mutations.clear()

    # ------------------------------------------------------------------ run
    def run(self):
        self.prepare()
        self.install()
        task = self.task
        argv = ['martinize2', '-f', 'input.pdb'] + list(task['argv'])
        sys.argv = argv
        self.fs.arm(finalising=False)
        outcome = None
        tb = None
        try:
            self.m2.entry()
            outcome = 'exit:0'
        except SystemExit as err:
            code = err.code
            if code is None:
                code = 0
            outcome = 'exit:%s' % (code if isinstance(code, int) else 1)
        except SimCrash:
            outcome = 'crash'
        except BaseException as err:
            outcome = 'raise:%s' % type(err).__name__
            tb = ''.join(traceback.format_exception(type(err), err, err.__traceback__))[-1500:]
        finally:
            self.fs.disarm()
            sys.stdout = sys.__stdout__
            sys.stderr = sys.__stderr__
        self.outcome = outcome
        self.traceback = tb
        os.chdir(self.base)
        self.tree = peval.read_tree(self.cwd, self.tmpdir)
        res = peval.evaluate(self)
        shutil.rmtree(self.base, ignore_errors=True)
        # process-free variants carried by this run (they use this core while they are at it)
        if self.task.get('counter'):
            from . import libvariants
            bad, n, nrec = libvariants.counter_only(self.task['counter']['seed'], self.task['counter']['n'], m2=self.m2)
            res['counter_only'] = [bad, n, nrec]
        if self.task.get('library'):
            from . import libvariants
            bad, n, st = libvariants.c17_library(self.task['library']['seed'], self.task['library']['n'])
            res['c17_library'] = [bad, n, dict(st.probes)]
        return res


def run(task):
    # a pathological input can make the repair step's subgraph search eat memory by the gigabyte before the per-run
    # budget expires: bound the address space of this simulated process (the run then ends with a MemoryError outcome)
    try:
        import resource
        limit = 10 * 1024 ** 3
        resource.setrlimit(resource.RLIMIT_AS, (limit, limit))
    except Exception:
        pass
    child = Child(task)
    return child.run()

"""World P worker: one interpreter per (PYTHONHASHSEED, enumeration order).

Started by the fleet as ``python -m vsim.pworker <enum_seed>`` with PYTHONHASHSEED set.
Loads the shipped force fields and mappings once with the real loaders (under the seeded
directory enumeration order, S4), loads /repo/bin/martinize2 as a module, then serves
tasks: each task is executed in a forked child (pristine copy-on-write library, S9) and
the child's JSON result is relayed on stdout.
"""
import importlib.machinery
import importlib.util
import json
import os
import select
import signal
import sys
import time
import traceback


def install_enum_order(enum_seed):
    """S4: directory enumeration order is decided by the simulator."""
    import glob as glob_mod
    import pathlib
    from . import core
    real_listdir = os.listdir
    real_glob = glob_mod.glob
    real_pglob = pathlib.Path.glob

    def shuffled(items, tag):
        if enum_seed is None:
            return items          # native order of the host file system
        items = sorted(items, key=str)
        rng = core.sub_rng(enum_seed, 'enum', tag)
        rng.shuffle(items)
        return items

    def listdir(path='.'):
        return shuffled(real_listdir(path), 'listdir:%s' % os.path.basename(str(path)))

    def glob(pathname, *args, **kwargs):
        return shuffled(real_glob(pathname, *args, **kwargs), 'glob:%s' % os.path.basename(str(pathname)))

    def pglob(self, pattern, **kwargs):
        return iter(shuffled(list(real_pglob(self, pattern, **kwargs)), 'pglob:%s:%s' % (self.name, pattern)))
    os.listdir = listdir
    glob_mod.glob = glob
    pathlib.Path.glob = pglob
    return real_listdir


def load(enum_seed):
    from . import pchild, faultfs
    install_enum_order(enum_seed)
    import vermouth
    import vermouth.forcefield
    from vermouth import DATA_PATH
    from pathlib import Path
    from vermouth.map_input import read_mapping_directory
    repo = os.environ.get('VERIF_REPO', '/repo')
    loader = importlib.machinery.SourceFileLoader('m2sim', os.path.join(repo, 'bin', 'martinize2'))
    spec = importlib.util.spec_from_loader('m2sim', loader)
    m2 = importlib.util.module_from_spec(spec)
    sys.modules['m2sim'] = m2
    loader.exec_module(m2)
    ff_dir = Path(DATA_PATH) / 'force_fields'
    map_dir = Path(DATA_PATH) / 'mappings'
    real_find = vermouth.forcefield.find_force_fields
    real_read = m2.read_mapping_directory
    ffs = real_find(ff_dir)
    maps = real_read(map_dir, ffs)

    def find_force_fields(directory, force_fields=None):
        if force_fields is None and Path(directory) == ff_dir:
            return ffs
        return real_find(directory, force_fields)

    def read_mapping_dir(directory, force_fields):
        if Path(directory) == map_dir and force_fields is ffs:
            return maps
        return real_read(directory, force_fields)
    real_self = m2.generate_all_self_mappings
    self_maps = real_self(ffs.values())
    self_ids = [id(ff) for ff in ffs.values()]

    def generate_all_self_mappings(force_fields):
        force_fields = list(force_fields)
        if [id(ff) for ff in force_fields] == self_ids:
            return self_maps
        return real_self(force_fields)
    m2.generate_all_self_mappings = generate_all_self_mappings
    vermouth.forcefield.find_force_fields = find_force_fields
    m2.read_mapping_directory = read_mapping_dir
    faultfs.install()
    pchild.STATE['m2'] = m2
    pchild.STATE['ffs'] = ffs
    pchild.STATE['maps'] = maps
    return pchild


def run_forked(pchild, task, timeout):
    rfd, wfd = os.pipe()
    pid = os.fork()
    if pid == 0:
        os.close(rfd)
        code = 0
        try:
            try:
                res = pchild.run(task)
            except BaseException as err:  # noqa: harness problem inside the child
                res = {'harness_error': ''.join(traceback.format_exception(type(err), err, err.__traceback__))[-3000:]}
            data = json.dumps(res, default=repr).encode()
            with os.fdopen(wfd, 'wb') as out:
                out.write(data)
        except BaseException:
            code = 1
        finally:
            os._exit(code)
    os.close(wfd)
    chunks = []
    deadline = time.time() + timeout
    timed_out = False
    with os.fdopen(rfd, 'rb') as inp:
        while True:
            remaining = deadline - time.time()
            if remaining <= 0:
                timed_out = True
                break
            ready, _, _ = select.select([inp], [], [], min(remaining, 5))
            if ready:
                data = os.read(inp.fileno(), 1 << 16)
                if not data:
                    break
                chunks.append(data)
    if timed_out:
        try:
            os.kill(pid, signal.SIGKILL)
        except OSError:
            pass
    os.waitpid(pid, 0)
    if timed_out:
        return {'harness_timeout': timeout}
    try:
        return json.loads(b''.join(chunks).decode())
    except ValueError:
        return {'harness_error': 'child died without a result (%d bytes)' % sum(map(len, chunks))}


def main():
    enum_seed = None if sys.argv[1] == 'native' else int(sys.argv[1])
    out = os.fdopen(os.dup(1), 'w')
    devnull = open(os.devnull, 'w')
    os.dup2(devnull.fileno(), 1)       # nothing the library prints may corrupt the protocol
    try:
        pchild = load(enum_seed)
    except BaseException as err:
        out.write(json.dumps({'fatal': ''.join(traceback.format_exception(type(err), err, err.__traceback__))[-3000:]}) + '\n')
        out.flush()
        return 1
    out.write(json.dumps({'ready': True, 'hash_seed': os.environ.get('PYTHONHASHSEED'), 'pid': os.getpid()}) + '\n')
    out.flush()
    for line in sys.stdin:
        line = line.strip()
        if not line:
            continue
        msg = json.loads(line)
        if msg.get('quit'):
            break
        res = run_forked(pchild, msg['task'], msg.get('timeout', 120))
        out.write(json.dumps({'id': msg['id'], 'result': res}) + '\n')
        out.flush()
    import shutil
    from . import core
    shutil.rmtree(os.path.join(core.scratch_base(), 'vsim-P-%d' % os.getpid()), ignore_errors=True)
    return 0


if __name__ == '__main__':
    sys.exit(main())

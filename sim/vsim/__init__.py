"""vsim - deterministic simulation with fault injection for vermouth/martinize2."""

"""World P - the martinize2 process in a simulated environment (driver side).

A *fleet* of worker interpreters, one per (PYTHONHASHSEED, enumeration seed), each with
the shipped library loaded by the real loaders; every simulated run is a forked child of
one of them (see pworker.py / pchild.py).  Checks built on it: C03, C08, C11, C17 and the
CLI layer of C07 and C02.
"""
import collections
import json
import os
import queue
import select
import subprocess
import sys
import threading
import time
from concurrent.futures import Future

from . import core, structure
from .core import VIOLATION, PASS, HARNESS_ERROR, HARNESS_TIMEOUT, result

FFS_TARGET = ['martini3001'] * 10 + ['martini22'] * 4 + ['elnedyn22'] * 2 + ['martini22p', 'elnedyn22p', 'martini30b32']


class Worker(threading.Thread):
    def __init__(self, hash_seed, enum_seed):
        super().__init__(daemon=True)
        self.hash_seed = hash_seed
        self.enum_seed = enum_seed
        self.q = queue.Queue()
        self.proc = None
        self.buf = b''
        self.counter = 0
        self.alive = True
        self.start()

    def spawn(self):
        env = dict(os.environ)
        env['PYTHONHASHSEED'] = str(self.hash_seed)
        env['PYTHONPATH'] = os.path.join(core.VERIF_ROOT, 'sim') + ((':' + core.REPO) if core.REPO != '/repo' else '')
        env['PYTHONWARNINGS'] = 'ignore::SyntaxWarning'
        env['PYTHONDONTWRITEBYTECODE'] = '1'
        self.proc = subprocess.Popen(['/venv/bin/python', '-m', 'vsim.pworker',
                                      'native' if self.enum_seed is None else str(self.enum_seed)],
                                     stdin=subprocess.PIPE, stdout=subprocess.PIPE, stderr=subprocess.DEVNULL,
                                     env=env, cwd=core.scratch_base())
        self.buf = b''
        msg = self.readline(120)
        if not msg or not msg.get('ready'):
            raise core.HarnessError('worker failed to start: %r' % (msg,))

    def readline(self, timeout):
        deadline = time.time() + timeout
        fd = self.proc.stdout.fileno()
        while b'\n' not in self.buf:
            remaining = deadline - time.time()
            if remaining <= 0:
                return None
            ready, _, _ = select.select([fd], [], [], min(remaining, 5))
            if ready:
                data = os.read(fd, 1 << 16)
                if not data:
                    return None
                self.buf += data
        line, self.buf = self.buf.split(b'\n', 1)
        return json.loads(line.decode())

    def kill(self):
        if self.proc is not None:
            try:
                self.proc.kill()
                self.proc.wait(timeout=10)
            except Exception:
                pass
            self.proc = None

    def run(self):
        while True:
            item = self.q.get()
            if item is None:
                break
            fut, task, timeout = item
            try:
                if self.proc is None or self.proc.poll() is not None:
                    self.spawn()
                self.counter += 1
                msg = json.dumps({'id': self.counter, 'task': task, 'timeout': timeout}) + '\n'
                self.proc.stdin.write(msg.encode())
                self.proc.stdin.flush()
                reply = self.readline(timeout + 30)
                if reply is None:
                    self.kill()
                    fut.set_result({'harness_timeout': timeout})
                else:
                    fut.set_result(reply['result'])
            except Exception as err:
                self.kill()
                fut.set_result({'harness_error': 'worker problem: %r' % (err,)})
        if self.proc is not None:
            try:
                self.proc.stdin.write(b'{"quit": 1}\n')
                self.proc.stdin.flush()
                self.proc.wait(timeout=10)
            except Exception:
                self.kill()


class Fleet:
    max_workers = 36

    def __init__(self):
        self.workers = {}
        self.lock = threading.Lock()

    def submit(self, env, task, timeout=180):
        key = (env['hash_seed'], env.get('enum_seed'))
        retire = []
        with self.lock:
            w = self.workers.get(key)
            if w is None:
                w = Worker(*key)
                self.workers[key] = w
                # a new phase (enumeration order) has started: retire idle workers of older orders
                if len(self.workers) > self.max_workers:
                    for k, old in list(self.workers.items()):
                        if k[1] != key[1] and old.q.empty() and len(self.workers) - len(retire) > self.max_workers // 2:
                            retire.append(self.workers.pop(k))
        for old in retire:
            old.q.put(None)
        fut = Future()
        w.q.put((fut, task, timeout))
        return fut

    def restart(self):
        self.close()

    def close(self):
        with self.lock:
            workers = list(self.workers.values())
            self.workers = {}
        for w in workers:
            w.q.put(None)
        for w in workers:
            w.join(timeout=30)
            w.kill()


FLEET = Fleet()
import atexit  # noqa: E402
atexit.register(FLEET.close)


def envs_for(seed, n, phase=0):
    """The n worker environments of a phase of a check invocation: distinct hash seeds, one enumeration order per
    phase (phase 0: the native order of the host file system; later phases: seeded permutations)."""
    enum_seed = None if phase == 0 else core.sub_int(seed, 'enum', phase, bits=30)
    return [{'hash_seed': core.sub_int(seed, 'hashseed', phase, j, bits=32), 'enum_seed': enum_seed} for j in range(n)]


# ---------------------------------------------------------------------------
# scenario generation

SMALL_MOLECULES = ['DIOX', 'DIOX']


def gen_structure(rng, tier, focus):
    big = tier == 'thorough'
    weights = [3, 2, 2, 4, 3, 3, 1, 3, 3, 2, 3, 1]
    source = rng.choices(structure.SOURCES, weights=weights)[0]
    nres = len(structure.load_source(source))
    ops = []
    maxlen = 12 if big else 7
    nch = rng.choices([1, 2, 3, 4], weights=[5, 4, 3, 1])[0]
    if focus == 'C03':
        nch = rng.choices([1, 2, 3, 4], weights=[1, 4, 5, 2])[0]
    ids = 'ABCDEFG'
    lengths = []
    renumbered = set()
    for c in range(nch):
        dx = 45.0 * c
        if c > 0 and rng.random() < (0.65 if focus == 'C03' else 0.35):
            src_idx = rng.randrange(c)
            amp = rng.choice([0.0, 0.0, 0.0, 0.05, 0.3])
            if focus == 'C11':
                # keep copies physically plausible: with large noise, distance-based bonding of renamed hydrogens
                # legitimately differs from name-based bonding (DESIGN.md section 7)
                amp = rng.choice([0.0, 0.0, 0.02, 0.05])
            same_id = rng.random() < 0.15
            cid = ids[src_idx] if same_id else ids[c]
            ops.append(['copy', src_idx, cid, dx - 45.0 * src_idx, rng.randrange(1 << 20), amp])
            lengths.append(lengths[src_idx])
            if same_id:
                # same chain letter twice: keep residue numbers distinct, otherwise two copies without a TER
                # between them fuse into double residues (a pathological input, exponential in repair)
                ops.append(['renumber', c, 200 + 50 * c, 0, 0])
                renumbered.add(c)
        else:
            length = rng.randint(2, maxlen)
            start = rng.randrange(0, max(1, nres - length))
            ops.append(['chain', start, length, ids[c] if rng.random() < 0.9 else ' ', dx])
            lengths.append(min(length, nres - start))
    for c in range(nch):
        r = rng.random()
        if r < 0.25:
            ops.append(['drop_h', c])
        if rng.random() < 0.15:
            ops.append(['drop_atoms', c, rng.randrange(1 << 20), rng.choice([0.1, 0.3])])
        if rng.random() < 0.08 and lengths[c] > 2:
            ops.append(['drop_res', c, rng.randrange(10)])
            lengths[c] -= 1
        if rng.random() < 0.2 and c not in renumbered:
            ops.append(['renumber', c, rng.choice([1, 1, 0, -3, 5, 100, 9995]), rng.randrange(1, 6), rng.choice([0, 0, 3, 20])])
        if rng.random() < 0.04:
            ops.append(['icode', c, rng.randrange(10)])
        if focus in ('C17', 'C03', 'C11') and rng.random() < 0.10:
            ops.append(['renumber', c, 40, 0, 0])
            ops.append(['renumber_restart', c, rng.randrange(10), rng.choice([1, 5, 10])])
        if rng.random() < 0.12:
            ops.append(['altloc', c, rng.randrange(1 << 20)])
        if rng.random() < 0.08:
            ops.append(['noter', c])
    if nch > 2 and rng.random() < 0.3:
        perm = list(range(nch))
        rng.shuffle(perm)
        ops.append(['order', perm])
    if focus == 'C17' and rng.random() < 0.45:
        ops.append(['small', rng.choice(SMALL_MOLECULES), rng.choice(['before', 'before', 'after'])])
    if rng.random() < 0.10:
        ops.append(['water', rng.randint(1, 3), rng.choice(['before', 'after'])])
    if rng.random() < 0.10:
        ops.append(['unknown', rng.choice(['LIG', 'XYZ']), rng.choice(['before', 'after'])])
    return {'source': source, 'ops': ops}, lengths


def gen_maxwarn(rng):
    types = ['general', 'pdb-alternate', 'unknown-residue', 'missing-feature', 'inconsistent-data', 'model', 'never-occurs',
             'unknown-input', 'DSSP-version']
    out = []
    for _ in range(rng.randint(1, 3)):
        out.append('-maxwarn')
        for _ in range(rng.randint(1, 3)):
            r = rng.random()
            if r < 0.35:
                out.append(str(rng.choice([0, 1, 2, 3, 5, 10, 100, -1, -5])))
            elif r < 0.6:
                out.append(rng.choice(types))
            else:
                # an empty type name (what a wrapper script passes for "${TYPE}:5" with TYPE unset) is a type that
                # never occurs, not the blanket allowance
                out.append('%s:%d' % (rng.choice(types + ['']), rng.choice([0, 1, 2, 3, 10, -2])))
    return out


def gen_argv(rng, tier, focus, lengths):
    argv = ['-x', 'cg.pdb']
    if rng.random() < 0.92:
        argv += ['-o', 'topol.top']
    ff = rng.choice(FFS_TARGET)
    argv += ['-ff', ff]
    if rng.random() < (0.15 if focus != 'C03' else 0.3):
        argv.append('-sep')
    r = rng.random()
    if r < 0.08:
        argv += ['-merge', 'all']
    elif r < 0.16:
        argv += ['-merge', rng.choice(['A,B', 'A,C', 'B,C', 'A,B,C'])]
    if rng.random() < 0.30 and not ff.startswith('elnedyn'):
        argv.append('-elastic')
        if rng.random() < 0.4:
            argv += ['-ef', str(rng.choice([500, 700.0, 1000]))]
        if rng.random() < 0.3:
            argv += ['-el', str(rng.choice([0.0, 0.3, 0.5])), '-eu', str(rng.choice([0.7, 0.9, 1.2]))]
        if rng.random() < 0.2:
            argv += ['-ea', str(rng.choice([0, 6])), '-ep', str(rng.choice([1, 6]))]
        if rng.random() < 0.2:
            argv += ['-em', str(rng.choice([0, 50, 100]))]
        if rng.random() < 0.3:
            argv += ['-eunit', rng.choice(['chain', 'molecule', 'all'])]
    if '-elastic' not in argv and not ff.startswith('elnedyn') and focus not in ('C11',) and rng.random() < 0.10:
        # Go model (generates a contact map from the atomistic structure) or the water bias on virtual sites
        if rng.random() < 0.6:
            argv.append('-go')
            if rng.random() < 0.4:
                argv += ['-go-write-file'] + (['contacts.out'] if rng.random() < 0.5 else [])
            if rng.random() < 0.3:
                argv += ['-go-eps', str(rng.choice([9.414, 12.0])), '-go-res-dist', str(rng.choice([2, 3]))]
        else:
            argv += ['-water-bias', '-water-bias-eps', 'H:3.6', 'C:2.1', '-ss', rng.choice('HCE')]
    if rng.random() < 0.25:
        argv.append('-noscfix')
    if rng.random() < 0.15:
        argv += ['-p', rng.choice(['backbone', 'all'])]
        if rng.random() < 0.5:
            argv += ['-pf', str(rng.choice([500, 1000.0]))]
    total = sum(lengths)
    if focus != 'C17' and '-ss' not in argv and rng.random() < 0.15 and total:
        letters = 'HHHHEEECCTSGB'
        if rng.random() < 0.7:
            ss = ''.join(rng.choice(letters) for _ in range(total))
        else:
            ss = rng.choice(letters)
        argv += ['-ss', ss]
    if rng.random() < 0.2:
        argv += ['-cys', rng.choice(['auto', 'none', '0.3', '0.22'])]
    if rng.random() < 0.1:
        argv.append('-nt')
    if rng.random() < (0.3 if focus == 'C03' else 0.15):
        argv += ['-resid', rng.choice(['input', 'input', 'mol'])]
    if rng.random() < 0.1:
        argv += ['-name', rng.choice(['prot', 'x', 'molecule'])]
    if rng.random() < 0.08:
        argv.append('-ignh')
    if rng.random() < 0.05:
        argv += [rng.choice(['-write-graph', '-write-repair', '-write-canon']), 'debug_dump.pdb']
    if rng.random() < 0.05:
        argv.append('-v')
    if focus in ('C03', 'C11', 'C17', 'C02') and rng.random() < 0.8:
        # let the run finish whatever the derived input provokes
        argv += ['-maxwarn', '100000']
    elif rng.random() < (0.6 if focus in ('C08', 'C07') else 0.25):
        argv += gen_maxwarn(rng)
    return argv


def gen_cwd_pre(rng):
    pre = []
    names = ['cg.pdb', 'topol.top', 'molecule_0.itp', 'molecule_1.itp', 'notes.txt']
    n = 0
    for name in names:
        if rng.random() < 0.45:
            n += 1
            pre.append([name, core.b64(('OLD%d:%s\n' % (n, name)).encode() * rng.choice([1, 50]))])
            for idx in rng.choice([[], [], [1], [1, 2], [2]]):
                n += 1
                pre.append(['#%s.%d#' % (name, idx), core.b64(('BK%d:%s\n' % (n, name)).encode())])
    return pre


def gen_inject(rng, focus):
    inject = []
    if focus in ('C03', 'C11', 'C17', 'C02'):
        return inject
    if rng.random() < (0.6 if focus in ('C08', 'C07') else 0.2):
        for _ in range(rng.randint(1, 3)):
            level = rng.choice([30, 30, 30, 30, 40, 35, 50, 20])
            type_ = rng.choice(['general', 'pdb-alternate', 'unknown-residue', 'missing-feature', 'custom-type', 'model'])
            inject.append([rng.randint(1, 18), level, type_, rng.choice([1, 1, 2, 3, 7, 50])])
    return inject


def gen_task(rng, tier, focus):
    struct, lengths = gen_structure(rng, tier, focus)
    task = {'structure': struct, 'argv': gen_argv(rng, tier, focus, lengths), 'cwd_pre': gen_cwd_pre(rng),
            'rng_seed': rng.randrange(1 << 30), 'inject': gen_inject(rng, focus)}
    if focus in ('C03', 'C11') and rng.random() < 0.06:
        # molecules that span two chains without any -merge: two copies of a disulfide-linked pair of chain
        # fragments (insulin A7-B7), the second copy with its chain letters in the opposite alphabetical order
        lo_a, hi_a = 4 - rng.randint(0, 2), 9 + rng.randint(0, 2)
        lo_b, hi_b = 25 - rng.randint(0, 2), 30 + rng.randint(0, 2)
        ids = rng.sample('ABCDEF', 4)
        first = sorted(ids[:2])
        second = sorted(ids[2:], reverse=True)
        task['structure'] = {'source': 'tier-1/3i40/3i40.pdb', 'ops': [
            ['chain', lo_a, hi_a - lo_a, first[0], 0.0], ['chain', lo_b, hi_b - lo_b, first[1], 0.0],
            ['copy', 0, second[0], 60.0, rng.randrange(1 << 20), 0.0], ['copy', 1, second[1], 60.0, rng.randrange(1 << 20), 0.0]]}
        groups = split_argv(task['argv'])
        task['argv'] = [a for g in groups if g[0] not in ('-merge', '-go', '-ss', '-cys') for a in g]
    elif focus in ('C03', 'C11') and rng.random() < 0.07:
        # several merge groups whose members are copies of each other, listed in different chain order
        source = struct['source']
        nres = len(structure.load_source(source))
        la, lb = rng.randint(2, 4), rng.randint(2, 4)
        sa, sb = rng.randrange(0, max(1, nres - la)), rng.randrange(0, max(1, nres - lb))
        ids = rng.sample('ABCDEF', 4)
        struct = {'source': source, 'ops': [['chain', sa, la, ids[0], 0.0], ['chain', sb, lb, ids[1], 45.0],
                                            ['copy', 0, ids[2], 90.0, rng.randrange(1 << 20), 0.0],
                                            ['copy', 1, ids[3], 90.0, rng.randrange(1 << 20), 0.0]]}
        if rng.random() < 0.6:
            # ... followed by one more, different, molecule: a molecule type numbered after the merged ones
            le = rng.randint(5, 6)
            other = rng.choice([c for c in 'ABCDEFG' if c not in ids])
            struct['ops'].append(['chain', rng.randrange(0, max(1, nres - le)), le, other, 180.0])
        task['structure'] = struct
        groups = split_argv(task['argv'])
        argv = [a for g in groups if g[0] not in ('-merge', '-sep', '-go', '-ss') for a in g]
        task['argv'] = argv + ['-merge', '%s,%s' % (ids[0], ids[1]), '-merge', '%s,%s' % (ids[2], ids[3])]
    if focus == 'C17':
        r = rng.random()
        argv = task['argv']
        total = sum(lengths)
        letters = 'HHHHHHEEBGITSC'
        if r < 0.5:
            k = rng.random()
            if k < 0.45:
                n = total
            elif k < 0.65 and len(set(lengths)) == 1:
                n = lengths[0]
            elif k < 0.8:
                n = 1
            else:
                n = max(0, total + rng.choice([-2, -1, 1, 2, 5]))
            if rng.random() < 0.5:
                # helix-rich sequences: runs of every length class
                ss = ''
                while len(ss) < n:
                    ss += 'H' * rng.choice([1, 2, 3, 4, 5, 6, 7, 8, 9, 12]) + rng.choice('CETSB') * rng.choice([1, 1, 2])
                ss = ss[:n]
            else:
                ss = ''.join(rng.choice(letters) for _ in range(n))
            if ss:
                argv += ['-ss', ss]
            else:
                argv += ['-collagen']
        elif r < 0.55:
            argv += ['-collagen']
        else:
            argv += ['-dssp', 'simdssp']
            peer = {'seed': rng.randrange(1 << 30), 'version': rng.choice(['3.0.0', '2.2.1', '3.0.0']),
                    'mode': rng.choice(['random', 'helix'])}
            f = rng.random()
            if f < 0.5:
                kind = rng.choice(['exit', 'missing', 'version', 'version', 'drop', 'dup', 'noheader', 'badletter', 'breaks',
                                   'truncate', 'truncate'])
                if kind == 'version':
                    peer['fault'] = ['version', rng.choice(['4.4.0', '4.0.5', 'unknown', ''])]
                elif kind == 'truncate':
                    peer['fault'] = ['truncate', rng.randrange(1 << 16), rng.choice(['line', 'byte'])]
                else:
                    peer['fault'] = [kind, rng.randrange(1 << 10)]
                peer['fault_call'] = rng.choice([0, 0, 1])
            task['peer'] = peer
    if focus in ('C07', 'C11') and '-ss' not in task['argv'] and '-collagen' not in task['argv'] and rng.random() < (0.15 if focus == 'C07' else 0.10):
        # the DSSP stage writes its own output (chain_X.ssd) and a scratch input: both must respect the gate
        task['argv'] += ['-dssp', 'simdssp']
        task['peer'] = {'seed': rng.randrange(1 << 30), 'version': rng.choice(['3.0.0', '4.4.0'])}
        if focus == 'C07' and rng.random() < 0.2:
            task['peer']['fault'] = ['exit', 0]
    if focus in ('C07', 'C08') and rng.random() < 0.25:
        # an entry in a molecule's log (what [ warning ]/[ error ] sections of a force field produce): logged by the CLI
        # only when it writes output, i.e. after every pipeline stage
        task['inject_model'] = [[rng.randint(6, 16), rng.choice([30, 30, 40]), rng.choice([1, 2])]]
    if focus in ('C07', 'C08') and rng.random() < 0.2:
        task['inject'] = task['inject'] + [[rng.randint(19, 30), rng.choice([30, 30, 40, 35]), rng.choice(['general', 'model']), 1]]
    if focus == 'C07' and rng.random() < 0.5:
        # finalisation-fault scenario: make sure the gate opens, then interrupt the CLI's finalisation
        r = rng.random()
        fs = {'xdev': rng.random() < 0.4}
        if r < 0.6:
            fs['crash_at'] = rng.randint(1, 9)
        elif r < 0.85:
            fs['error_at'] = [rng.randint(1, 8), rng.choice(['ENOSPC', 'EACCES', 'EIO'])]
        task['fs'] = fs
        groups = split_argv(task['argv'])
        task['argv'] = [a for g in groups if g[0] != '-maxwarn' for a in g] + ['-maxwarn', '100000']
        task['inject'] = [inj for inj in task['inject'] if inj[1] == 30]
        if not task['cwd_pre']:
            task['cwd_pre'] = [['cg.pdb', core.b64(b'OLD-CG\n')], ['topol.top', core.b64(b'OLD-TOP\n')],
                               ['#cg.pdb.1#', core.b64(b'OLD-BACKUP\n')]]
    elif rng.random() < 0.15:
        task['fs'] = {'xdev': True}
    return task


# ---------------------------------------------------------------------------

def harness_result(res):
    if 'harness_timeout' in res:
        return result(HARNESS_TIMEOUT, invariant='child-timeout', detail='no result within %s s' % res['harness_timeout'])
    return result(HARNESS_ERROR, invariant='child-error', detail=res.get('harness_error') or res.get('fatal'))


class PCheck(core.Check):
    state_measure = 'distinct sequences of (pipeline stage, system digest) pairs observed at the stage boundaries of a simulated run'
    """Base of the World P checks: one simulated run per scenario."""
    world = 'P'
    mode = 'fleet'
    chunk = 1
    run_timeout = 150
    focus = None
    properties = ()              # property ids whose invariants decide the verdict
    list_keys = ()               # minimisation goes through simplifications()
    real_components = ['bin/martinize2 entry() (real, run in a forked child of a worker interpreter)',
                       'vermouth library incl. force-field and mapping loaders (real)', 'kernel file system in a scratch directory']
    stub_components = ['PYTHONHASHSEED / numpy+random seeds / directory enumeration order: owned by the simulator',
                       'TMPDIR redirected below the scratch directory', 'log records injected at pipeline stage boundaries']
    assumptions = ['input structures are derived from the shipped atomistic test structures by seeded structure operations',
                   'find_force_fields/read_mapping_directory/generate_all_self_mappings are computed once per worker by the real '
                   'code and handed to every forked run (copy-on-write)']

    def nworkers(self, tier):
        return int(os.environ.get('VERIF_WORKERS', 16))

    def worker_init(self, tier):
        pass

    def fresh_workers(self):
        FLEET.restart()

    def generate(self, rng, run_index, tier):
        seed = int(os.environ.get('VERIF_SEED', '0') or 0)
        envs = envs_for(seed, self.nworkers(tier), self.phase_of(run_index, tier))
        task = gen_task(rng, tier, self.focus)
        return {'env': envs[run_index % len(envs)], 'task': task}

    def phase_of(self, run_index, tier):
        """Enumeration order changes between phases of a check invocation (quick: 2 phases, thorough: every 400 runs)."""
        runs = int(os.environ.get('VERIF_RUNS', self.budgets(tier)['runs']))
        length = 400 if tier == 'thorough' else max(1, (runs + 1) // 2)
        return run_index // length

    def describe(self, scenario):
        t = scenario['task']
        return {'env': scenario['env'], 'structure': t['structure'], 'argv': t['argv'], 'inject': t.get('inject'),
                'fs': t.get('fs'), 'cwd_pre': [p for p, _ in t.get('cwd_pre', [])]}

    def simplifications(self, scenario):
        t = scenario['task']

        def with_task(**kw):
            new = dict(t)
            new.update(kw)
            return dict(scenario, task=new)
        ops = t['structure']['ops']
        for i in range(len(ops) - 1, -1, -1):
            if ops[i][0] in ('chain', 'copy') and sum(1 for o in ops if o[0] in ('chain', 'copy')) == 1:
                continue
            if ops[i][0] in ('chain', 'copy'):
                # later ops refer to chain indices: only drop the last chain-creating op
                later = [o for o in ops[i + 1:] if o[0] in ('chain', 'copy')]
                if later:
                    continue
                idx = sum(1 for o in ops[:i] if o[0] in ('chain', 'copy'))
                rest = [o for o in ops[:i] + ops[i + 1:] if not (o[0] not in ('chain', 'copy', 'order', 'water', 'unknown', 'small') and o[1] == idx)]
                rest = [o for o in rest if o[0] != 'order']
                yield with_task(structure=dict(t['structure'], ops=rest))
            else:
                yield with_task(structure=dict(t['structure'], ops=ops[:i] + ops[i + 1:]))
        for i, op in enumerate(ops):
            if op[0] == 'chain' and op[2] > 2:
                yield with_task(structure=dict(t['structure'], ops=ops[:i] + [[op[0], op[1], op[2] - 1] + op[3:]] + ops[i + 1:]))
                yield with_task(structure=dict(t['structure'], ops=ops[:i] + [[op[0], op[1] + 1, op[2] - 1] + op[3:]] + ops[i + 1:]))
        if t.get('cwd_pre'):
            yield with_task(cwd_pre=[])
            for i in range(len(t['cwd_pre'])):
                yield with_task(cwd_pre=t['cwd_pre'][:i] + t['cwd_pre'][i + 1:])
        if t.get('inject'):
            yield with_task(inject=[])
            for i in range(len(t['inject'])):
                yield with_task(inject=t['inject'][:i] + t['inject'][i + 1:])
        if t.get('fs'):
            yield with_task(fs=None)
        argv = t['argv']
        flags = split_argv(argv)
        for i, grp in enumerate(flags):
            if grp[0] in ('-x', '-o'):
                continue
            yield with_task(argv=[a for j, g in enumerate(flags) if j != i for a in g])

    def verdict(self, scenario, res):
        """Turn a child's result into a check result, looking only at this check's properties."""
        if 'harness_error' in res or 'harness_timeout' in res or 'fatal' in res:
            return harness_result(res)
        mine = [f for f in res['failed'] if f['property'] in self.properties]
        stats = res['stats']
        also = collections.Counter(f['property'] + ':' + f['invariant'] for f in res['failed'] if f['property'] not in self.properties)
        for k, v in also.items():
            stats['counters']['also_observed:' + k] = stats['counters'].get('also_observed:' + k, 0) + v
        if mine:
            f = mine[0]
            return result(VIOLATION, invariant=f['invariant'], signature=f.get('signature'), expected=f.get('expected'),
                          actual=f.get('actual'), detail={'what': f.get('detail'), 'outcome': res['outcome'], 'R': res['R'],
                                                          'leftover': res['leftover'], 'traceback': res.get('traceback')},
                          events=res.get('events_tail'), stats=stats, run_digest=res['digest'])
        return result(PASS, events=res.get('events_tail'), stats=stats, run_digest=res['digest'])

    def execute(self, scenario):
        fut = FLEET.submit(scenario['env'], scenario['task'], timeout=self.run_timeout)
        res = fut.result()
        return self.verdict(scenario, res)


def split_argv(argv):
    groups = []
    for a in argv:
        if a.startswith('-') and not _is_number(a) or not groups:
            groups.append([a])
        else:
            groups[-1].append(a)
    return groups


def _is_number(text):
    try:
        float(text)
        return True
    except ValueError:
        return False


class C08Check(PCheck):
    id = 'C08'
    focus = 'C08'
    properties = ('C08',)
    rule = ('scenario = one simulated martinize2 run: derived input structure (real warnings from alternate locations, unknown '
            'residues, missing atoms), option set, log records (level x type x count) injected at a pipeline stage boundary, and '
            'a -maxwarn list (numbers, names, name:count, repeats, negatives, types that never occur). The independent record of '
            'the log history gives R by the statement\'s formula; it must equal the value the real code computes at the gate, the '
            'printed count, and the gate decision. distinct = scenario digest; non-trivial = run reached the gate with >= 1 record')
    probes_expected = ['gate_reached', 'gate_with_warnings', 'gate_closed', 'gate_open', 'counter_only_histories']
    stub_components = PCheck.stub_components + [
        'counter-only mode (reported separately as counter_only_histories): generated record histories are fed to the real '
        'CountingHandler through the real adapters without running a process']

    def budgets(self, tier):
        if tier == 'thorough':
            return {'runs': 14000, 'determinism': 60, 'wall': 3400, 'workers': 32}
        return {'runs': 260, 'determinism': 12, 'wall': 1800, 'workers': 32}

    def generate(self, rng, run_index, tier):
        sc = super().generate(rng, run_index, tier)
        sc['task']['counter'] = {'seed': rng.randrange(1 << 30), 'n': 400 if tier == 'thorough' else 150}
        return sc

    def execute(self, scenario):
        fut = FLEET.submit(scenario['env'], scenario['task'], timeout=self.run_timeout)
        raw = fut.result()
        res = self.verdict(scenario, raw)
        if res['verdict'] != PASS or not raw.get('counter_only'):
            return res
        bad, n, nrec = raw['counter_only']
        res['stats']['probes']['counter_only_histories'] = res['stats']['probes'].get('counter_only_histories', 0) + n
        res['stats']['counters']['counter_only_records'] = res['stats']['counters'].get('counter_only_records', 0) + nrec
        if bad is not None:
            return result(VIOLATION, invariant='accounting-counter-only', signature='accounting-counter-only',
                          expected=bad['expected'], actual=bad['actual'], detail=bad, stats=res['stats'],
                          run_digest=res['digest'])
        return res


class C03Check(PCheck):
    id = 'C03P'
    focus = 'C03'
    properties = ('C03',)
    rule = ('scenario = one simulated martinize2 run on a derived multi-chain structure (identical chains adjacent and interleaved, '
            'exact and noisy copies) with -sep/-merge/-elastic/-resid/-name option mixes; after finalisation the -x PDB, every '
            '*.itp and the .top left in the directory are parsed by independent readers and compared atom for atom; molecules '
            'sharing a type name must render identical ITP text at write time. distinct = scenario digest; non-trivial = run '
            'finished and its outputs were parsed')
    probes_expected = ['c03_outputs_parsed', 'c03_shared_moltype', 'c03_interleaved_moltype', 'c03_dedup_group']

    def budgets(self, tier):
        if tier == 'thorough':
            return {'runs': 14000, 'determinism': 60, 'wall': 3400, 'workers': 32}
        return {'runs': 260, 'determinism': 12, 'wall': 1800, 'workers': 32}


CHECK_C08 = core.register(C08Check())
CHECK_C03 = core.register(C03Check())


class C07PCheck(PCheck):
    """CLI layer of C07: the gate and 'all writers defer', with faults during the CLI's finalisation."""
    id = 'C07P'
    focus = 'C07'
    properties = ('C07',)
    level = 'fault_enumeration'
    rule = ('scenario = one simulated martinize2 run in a working directory with pre-existing outputs and backups, real and '
            'injected warnings, a -maxwarn list, optionally a crash / I/O error at a sampled file-system event of the finalisation '
            'and a cross-device temp dir; checked: nothing but temp files changes before finalisation (audit monitor), no '
            'finalisation and non-zero exit when R > 0, first-free backups and exact contents after finalisation, nothing '
            'pre-existing lost after an interruption. distinct = scenario digest; non-trivial = the gate was reached or a fault fired')
    probes_expected = ['gate_closed', 'gate_open', 'cli_backup_made', 'cli_content_checked', 'cli_finalise_interrupted',
                       'no_output_on_failure', 'cli_restart_after_crash']

    def budgets(self, tier):
        if tier == 'thorough':
            return {'runs': 12000, 'determinism': 40, 'wall': 3400, 'workers': 32}
        return {'runs': 300, 'determinism': 10, 'wall': 1800, 'workers': 32}

    def execute(self, scenario):
        fut = FLEET.submit(scenario['env'], scenario['task'], timeout=self.run_timeout)
        res = fut.result()
        first = self.verdict(scenario, res)
        if first['verdict'] != PASS or not res.get('crashed_tree'):
            return first
        # restart: the user runs the same command again in the directory the crash left behind
        task2 = dict(scenario['task'])
        task2['cwd_pre'] = res['crashed_tree']
        task2['fs'] = None
        task2['want_tree'] = True
        res2 = FLEET.submit(scenario['env'], task2, timeout=self.run_timeout).result()
        second = self.verdict(scenario, res2)
        first['stats']['probes']['cli_restart_after_crash'] = first['stats']['probes'].get('cli_restart_after_crash', 0) + 1
        first['stats']['execs'] = first['stats'].get('execs', 1) + 1
        if second['verdict'] == VIOLATION:
            second['invariant'] = 'restart:' + str(second['invariant'])
            second['signature'] = 'restart:' + str(second.get('signature'))
            return second
        if second['verdict'] != PASS:
            return second
        # every file that existed before the first attempt is still there, under its own or a backup name
        final = dict((k, core.unb64(v)) for k, v in res2.get('final_tree', []))
        if res2.get('final_tree') is not None:
            import re as _re
            for name, data in scenario['task'].get('cwd_pre', []):
                old = core.unb64(data)
                if final.get(name) == old:
                    continue
                d, base = os.path.split(name)
                pat = _re.compile(r'^#' + _re.escape(base) + r'\.[1-9][0-9]*#$')
                if any(os.path.dirname(k) == d and pat.match(os.path.basename(k)) and v == old for k, v in final.items()):
                    continue
                return result(VIOLATION, invariant='restart-loses-original', signature='restart-loses-original',
                              expected='%s intact under its own or a backup name' % name,
                              actual=sorted(final)[:12], detail={'first_outcome': res['outcome'], 'second_outcome': res2['outcome']},
                              stats=first['stats'], run_digest=core.digest([res['digest'], res2['digest']]))
        first['digest'] = core.digest([res['digest'], res2['digest']])
        return first


class C02PCheck(PCheck):
    """Pipeline layer of C02: every call of the ITP writer made by a simulated run is intercepted."""
    id = 'C02P'
    focus = 'C02'
    properties = ('C02',)
    rule = ('World P part: every write_molecule_itp call of a simulated martinize2 run is intercepted with a snapshot of its '
            'argument (molecules after repair, mapping, merging, elastic network, sorting) and the text is compared with the '
            'snapshot by the independent reader. distinct = scenario digest; non-trivial = at least one writer call compared')
    probes_expected = ['itp_pipeline_call']

    def budgets(self, tier):
        if tier == 'thorough':
            return {'runs': 8000, 'determinism': 30, 'wall': 3400, 'workers': 32}
        return {'runs': 200, 'determinism': 8, 'wall': 600, 'workers': 32}


class Composite(core.Check):
    def __init__(self, cid, parts, level):
        self.id = cid
        self.parts = parts
        self.level = level


CHECK_C07P = core.register(C07PCheck())
CHECK_C02P = core.register(C02PCheck())
CHECK_C07 = core.register(Composite('C07', ['C07F', 'C07P'], 'fault_enumeration'))
CHECK_C02 = core.register(Composite('C02', ['C02M', 'C02P'], 'exploration'))
CHECK_C03X = core.register(Composite('C03', ['C03M', 'C03P'], 'exploration'))


# ---------------------------------------------------------------------------
# C11: groups of presentations of one structure

def _num(tok):
    try:
        return float(tok)
    except (TypeError, ValueError):
        return None


def _param_close(a, b):
    if a == b:
        return True
    fa, fb = _num(a), _num(b)
    if fa is None or fb is None:
        return False
    tol = 1e-6 + 1e-6 * max(abs(fa), abs(fb))
    # formatted fields: one unit in the last printed digit
    for tok in (a, b):
        if isinstance(tok, str) and '.' in tok and 'e' not in tok.lower():
            decimals = len(tok.split('.')[1])
            if decimals <= 6:
                tol = max(tol, 1.01 * 10 ** (-decimals))
    return abs(fa - fb) <= tol


def _inter_key(rec):
    section, guard, atoms, params = rec
    return (section, json.dumps(guard), json.dumps(atoms), [(_num(p) if _num(p) is not None else 0.0) for p in params],
            [str(p) for p in params])


def compare_topologies(base, var, variant, argv):
    """-> list of (class, detail) differences between the canonical topologies of two runs."""
    diffs = []
    mb, mv = base['molecules'], var['molecules']
    if len(mb) != len(mv):
        return [('molecule-count', {'baseline': len(mb), 'variant': len(mv)})]
    for j, (a, b) in enumerate(zip(mb, mv)):
        # molecule type *names* are labels: whether two near-identical molecules share one depends on floats that
        # differ in the last bits between presentations; the content of each molecule's topology is what is compared
        if len(a['atoms']) != len(b['atoms']):
            diffs.append(('atoms', {'molecule': j, 'baseline': len(a['atoms']), 'variant': len(b['atoms'])}))
            continue
        for k, (x, y) in enumerate(zip(a['atoms'], b['atoms'])):
            same = x[:5] == y[:5] and len(x) == len(y) and all(_param_close(p, q) for p, q in zip(x[5:], y[5:]))
            if not same:
                diffs.append(('atoms', {'molecule': j, 'atom': k + 1, 'baseline': x, 'variant': y}))
                break
        ia = sorted(a['inter'], key=_inter_key)
        ib = sorted(b['inter'], key=_inter_key)
        bad = None
        if len(ia) != len(ib):
            ka = collections.Counter((r[0], json.dumps(r[1]), json.dumps(r[2])) for r in ia)
            kb = collections.Counter((r[0], json.dumps(r[1]), json.dumps(r[2])) for r in ib)
            bad = {'molecule': j, 'only_baseline': list((ka - kb).elements())[:4], 'only_variant': list((kb - ka).elements())[:4],
                   'sections': sorted(set(k[0] for k in list((ka - kb)) + list((kb - ka))))}
        else:
            pairs = [(x, y) for x, y in zip(ia, ib)
                     if x[:3] != y[:3] or len(x[3]) != len(y[3]) or not all(_param_close(p, q) for p, q in zip(x[3], y[3]))]
            if pairs:
                x, y = pairs[0]
                bad = {'molecule': j, 'baseline': x, 'variant': y, 'sections': sorted(set(p[0][0] for p in pairs) | set(p[1][0] for p in pairs)),
                       'pairs': pairs[:60], 'n': len(pairs)}
        if bad is not None:
            diffs.append(('interactions', bad))
    # coordinates: variant == R * baseline + t
    dummies = set((d[0], d[1], d[2]) for d in base.get('dummies', []))
    worst = 0.0
    bad_coords = []
    for j, (ca, cb) in enumerate(zip(base['coords'], var['coords'])):
        if len(ca) != len(cb):
            continue
        for (na, ra, xa), (nb, rb, xb) in zip(ca, cb):
            want = expected_position(variant, xa)
            if any(w <= -999.9995 or w >= 9999.9995 for w in want):
                # the image does not fit the 8.3 coordinate columns of the PDB format: the written record cannot state it
                continue
            err = max(abs(p - q) for p, q in zip(want, xb))
            if err > 0.0021:
                bad_coords.append({'molecule': j, 'atom': na, 'resid': ra, 'expected': [round(v, 3) for v in want], 'actual': xb,
                                   'dummy': (j, ra, na) in dummies})
            worst = max(worst, err)
    if bad_coords:
        if all(b['dummy'] for b in bad_coords):
            diffs.append(('coords-charge-dummy', {'n': len(bad_coords), 'first': bad_coords[0]}))
        else:
            plain = [b for b in bad_coords if not b['dummy']]
            diffs.append(('coords', {'n': len(plain), 'first': plain[0], 'bad': plain[:60],
                                     'charge_dummies_also': len(bad_coords) - len(plain)}))
    return diffs


def expected_position(variant, xyz_angstrom):
    """Image of a baseline output position (A) under the variant's rigid motion."""
    v = variant or {}
    x = list(xyz_angstrom)
    if v.get('rigid'):
        rot = structure.ROTATIONS[v['rigid'][0] % len(structure.ROTATIONS)]
        x = [sum(rot[i][j] * x[j] for j in range(3)) + v['rigid'][1 + i] / 1000.0 for i in range(3)]
    if v.get('mem_rigid'):
        m = v['mem_rigid']['matrix']
        t = v['mem_rigid']['shift']
        x = [sum(m[3 * i + j] * x[j] for j in range(3)) + 10.0 * t[i] for i in range(3)]
    return x


def random_rotation(rng):
    import math
    while True:
        q = [rng.gauss(0, 1) for _ in range(4)]
        n = math.sqrt(sum(v * v for v in q))
        if n > 1e-3:
            break
    w, x, y, z = [v / n for v in q]
    return [1 - 2 * (y * y + z * z), 2 * (x * y - z * w), 2 * (x * z + y * w),
            2 * (x * y + z * w), 1 - 2 * (x * x + z * z), 2 * (y * z - x * w),
            2 * (x * z - y * w), 2 * (y * z + x * w), 1 - 2 * (x * x + y * y)]


class C11Check(PCheck):
    id = 'C11'
    focus = 'C11'
    properties = ('C11',)
    run_timeout = 150
    rule = ('scenario = group of simulated martinize2 runs on one derived structure and option set: a baseline and 3-5 variants '
            '(other PYTHONHASHSEED in another interpreter; atoms shuffled within residues; hydrogens renamed; one of the 24 cube '
            'rotations plus a lattice translation applied to the file; an arbitrary rotation applied in memory after reading; '
            'combinations), enumeration order and RNG seed held equal inside a group. Compared: outcome class, canonical topology '
            'parsed from the written files (atoms and every interaction keyed by residue number and atom name, floats with '
            'tolerance), coordinates == R * baseline + t. distinct = scenario digest; non-trivial = baseline finished and at least '
            'one variant was compared')
    probes_expected = ['variant:hash', 'variant:perm', 'variant:hren', 'variant:rigid', 'variant:mem_rigid', 'variant:combo',
                       'group_compared', 'group_failed_consistently', 'variant_with_atom_on_origin_or_plane']

    def budgets(self, tier):
        if tier == 'thorough':
            return {'runs': 5000, 'determinism': 16, 'wall': 3400, 'workers': 12}
        return {'runs': 110, 'determinism': 5, 'wall': 1800, 'workers': 12}

    def generate(self, rng, run_index, tier):
        seed = int(os.environ.get('VERIF_SEED', '0') or 0)
        envs = envs_for(seed, self.nworkers(tier), self.phase_of(run_index, tier))
        task = gen_task(rng, tier, 'C11')
        task.pop('fs', None)
        if '-o' not in task['argv']:
            task['argv'] += ['-o', 'topol.top']
        directed = run_index == 0
        if directed:
            # directed group that exercises the listed known finding (charge dummies under a rigid motion)
            task['structure'] = {'source': 'tier-1/villin/aa.pdb', 'ops': [['chain', 3, 5, 'A', 0.0]]}
            task['argv'] = ['-x', 'cg.pdb', '-o', 'topol.top', '-ff', 'martini22p', '-maxwarn', '100000']
        a = run_index % len(envs)
        b = (a + 1 + rng.randrange(len(envs) - 1)) % len(envs)
        kinds = ['hash', 'perm', 'hren', 'rigid', 'mem_rigid', 'combo']
        chosen = ['hash'] + rng.sample(kinds[1:], rng.randint(2, 4))
        incomplete = any(op[0] == 'drop_atoms' for op in task['structure']['ops'])
        if directed:
            chosen = ['hash', 'rigid', 'perm']
        variants = []
        atoms = None
        for kind in chosen:
            v = {'kind': kind, 'present': {}}
            if kind in ('perm', 'combo'):
                v['present']['perm'] = rng.randrange(1 << 30)
            if kind in ('hren', 'combo') and not incomplete:
                # with heavy atoms missing, orphaned hydrogens can only be told apart by their names: renaming
                # them changes the chemistry that is recoverable, not just the presentation (DESIGN.md section 7)
                v['present']['hren'] = rng.randrange(1 << 30)
            if kind in ('rigid', 'combo'):
                span = 450000 if rng.random() < 0.3 else 20000      # stays inside the PDB coordinate columns
                v['present']['rigid'] = [rng.randrange(24)] + [rng.randrange(-span, span) for _ in range(3)]
                if rng.random() < 0.35:
                    # boundary values: the motion puts one atom exactly on the origin, or on a coordinate plane
                    if atoms is None:
                        atoms = [l for l in structure.build(task['structure']) if l.startswith('ATOM')]
                    if atoms:
                        line = rng.choice(atoms)
                        x = [int(round(float(line[30 + 8 * i:38 + 8 * i]) * 1000)) for i in range(3)]
                        rot = structure.ROTATIONS[v['present']['rigid'][0]]
                        image = [sum(rot[i][j] * x[j] for j in range(3)) for i in range(3)]
                        axes = [0, 1, 2] if rng.random() < 0.5 else [rng.randrange(3)]
                        for ax in axes:
                            v['present']['rigid'][1 + ax] = -image[ax]
                        v['zero_coordinate'] = len(axes)
            if kind == 'mem_rigid':
                far = 80.0 if rng.random() < 0.3 else 3.0
                v['present']['mem_rigid'] = {'matrix': random_rotation(rng), 'shift': [rng.uniform(-far, far) for _ in range(3)]}
            if kind == 'combo' and rng.random() < 0.5:
                v['other_hash'] = True
            variants.append(v)
        return {'env': envs[a], 'env_b': envs[b], 'task': task, 'variants': variants}

    def describe(self, scenario):
        d = super().describe(scenario)
        d['variants'] = scenario['variants']
        d['env_b'] = scenario['env_b']
        return d

    def simplifications(self, scenario):
        for i in range(len(scenario['variants'])):
            if len(scenario['variants']) > 1:
                yield dict(scenario, variants=scenario['variants'][:i] + scenario['variants'][i + 1:])
        for i, v in enumerate(scenario['variants']):
            for key in list(v['present']):
                if len(v['present']) > 1:
                    nv = dict(v, present={k: x for k, x in v['present'].items() if k != key})
                    yield dict(scenario, variants=scenario['variants'][:i] + [nv] + scenario['variants'][i + 1:])
        for cand in super().simplifications(scenario):
            yield cand

    @staticmethod
    def surplus_hydrogen_case(diffs, v, task, base_topology):
        """True when every difference is of the narrow class listed as known finding 'hren-terminal-surplus-hydrogen':
        hydrogens renamed, -nt given, only float parameters of otherwise identical interactions and coordinates of
        particles in terminal residues differ, by small amounts."""
        if 'hren' not in v['present']:
            return False
        for cls, detail in diffs:
            if cls == 'interactions':
                if not detail.get('pairs') or detail.get('n', 0) > len(detail['pairs']):
                    return False
                terminal = C11Check.terminal_residues(base_topology['molecules'][detail['molecule']])
                for x, y in detail['pairs']:
                    if x[:3] != y[:3] or len(x[3]) != len(y[3]):
                        return False
                    # a geometry-derived parameter of an interaction that involves a terminal residue
                    if not any(isinstance(k, list) and k[0] in terminal for k in x[2]):
                        return False
                    for p, q in zip(x[3], y[3]):
                        if p == q:
                            continue
                        if _num(p) is None or _num(q) is None:
                            return False
            elif cls == 'coords':
                if detail['n'] > len(detail['bad']):
                    return False
                for item in detail['bad']:
                    if item['resid'] not in C11Check.terminal_residues(base_topology['molecules'][item['molecule']]):
                        return False
                    if max(abs(p - q) for p, q in zip(item['expected'], item['actual'])) > 1.5:
                        return False
            else:
                return False
        return True

    @staticmethod
    def terminal_residues(mol):
        """Residue numbers at the ends of the chains of a molecule: residues with fewer than two backbone neighbours
        (a merged molecule holds several chains, so this is more than the first and last residue)."""
        resids = sorted(set(a[0] for a in mol['atoms']))
        neighbours = {r: set() for r in resids}
        for section, _guard, atoms, _params in mol['inter']:
            if section in ('bonds', 'constraints') and len(atoms) == 2 and all(isinstance(k, list) for k in atoms):
                (r1, n1), (r2, n2) = atoms
                if n1 == 'BB' and n2 == 'BB' and r1 != r2 and r1 in neighbours and r2 in neighbours:
                    neighbours[r1].add(r2)
                    neighbours[r2].add(r1)
        out = set(r for r, nb in neighbours.items() if len(nb) < 2)
        out.update((min(resids), max(resids)) if resids else ())
        return out

    def execute(self, scenario):
        task = scenario['task']
        futs = [FLEET.submit(scenario['env'], task, timeout=self.run_timeout)]
        for v in scenario['variants']:
            vt = dict(task)
            if v['present']:
                vt['variant'] = v['present']
            env = scenario['env_b'] if (v['kind'] == 'hash' or v.get('other_hash')) else scenario['env']
            futs.append(FLEET.submit(env, vt, timeout=self.run_timeout))
        results = [f.result() for f in futs]
        for r in results:
            if 'harness_error' in r or 'harness_timeout' in r or 'fatal' in r:
                return harness_result(r)
        base = results[0]
        stats = core.Stats()
        stats.execs = len(results)
        for r in results:
            st = r['stats']
            stats.faults.update(st.get('faults', {}))
            stats.counters.update(st.get('counters', {}))
            for k, val in st.get('probes', {}).items():
                stats.probes[k] += val
        digests = [r['digest'] for r in results]
        stats.states.add(core.digest(base['stages']))
        failure = None
        for v, r in zip(scenario['variants'], results[1:]):
            stats.probes['variant:' + v['kind']] += 1
            if v.get('zero_coordinate'):
                stats.probes['variant_with_atom_on_origin_or_plane'] += 1
            if r['outcome'] != base['outcome'] or r['finished'] != base['finished']:
                failure = ('outcome-class', 'outcome-class', {'baseline': base['outcome'], 'variant': r['outcome'], 'kind': v['kind'],
                                                               'traceback': (r.get('traceback') or base.get('traceback') or '')[-600:]})
                break
            if not base['finished']:
                stats.probes['group_failed_consistently'] += 1
                continue
            if base['topology'] is None or r['topology'] is None:
                continue
            stats.nontrivial = True
            diffs = compare_topologies(base['topology'], r['topology'], v['present'], task['argv'])
            stats.probes['group_compared'] += 1
            if diffs and self.surplus_hydrogen_case(diffs, v, task, base['topology']):
                # known finding: a terminal residue with more hydrogens than its template (-nt on NH3+; termini assigned
                # by residue number on unusual numberings): which of the equivalent hydrogens is discarded is decided by
                # its name, and the bead position shifts slightly with it
                failure = failure or ('surplus-hydrogen', 'hren-terminal-surplus-hydrogen',
                                      {'kind': v['kind'], 'present': v['present'], 'all': [d[0] for d in diffs],
                                       'first': {k: val for k, val in diffs[0][1].items() if k not in ('pairs', 'bad')}})
                continue
            if diffs:
                cls, detail = diffs[0]
                sig = cls
                if cls == 'interactions':
                    sig = 'interactions:' + ','.join(detail.get('sections', []))
                slim = {k: val for k, val in detail.items() if k not in ('pairs', 'bad')}
                failure = (cls, sig, {'kind': v['kind'], 'present': v['present'], 'detail': slim,
                                      'all': [d[0] for d in diffs]})
                if cls != 'coords-charge-dummy' or len(diffs) > 1:
                    if cls == 'coords-charge-dummy':
                        cls2, detail2 = diffs[1]
                        failure = (cls2, cls2, {'kind': v['kind'], 'detail': {k: val for k, val in detail2.items() if k not in ('pairs', 'bad')}})
                    break
        run_digest = core.digest(digests)
        if failure is not None:
            stats.nontrivial = True
            return result(VIOLATION, invariant=failure[0], signature=failure[1], expected='same topology and co-moving coordinates',
                          actual=failure[2], detail={'argv': task['argv'], 'outcomes': [r['outcome'] for r in results]},
                          stats=stats.to_json(), run_digest=run_digest)
        return result(PASS, stats=stats.to_json(), run_digest=run_digest)


CHECK_C11 = core.register(C11Check())


class C17Check(PCheck):
    id = 'C17'
    focus = 'C17'
    properties = ('C17',)
    rule = ('scenario = one simulated martinize2 run with -ss <sequence> / -collagen / -dssp <simulated peer>: systems with '
            'unselected (non-protein) molecules before and after the protein chains, chains of equal and unequal length, sequences '
            'of full, one-molecule, one-element and mismatching length; the DSSP peer answers per residue from the run PRNG and '
            'injects exit status, missing executable, unsupported/unparsable version, truncated output, lost/duplicated lines, '
            'missing header, illegal letters, break lines. Checked at the stage boundaries of the real processors. '
            'distinct = scenario digest; non-trivial = an annotation stage ran')
    probes_expected = ['ss_annotate_residues', 'ss_annotate_dssp', 'ss_unselected_before_selected', 'ss_rule_one_molecule_long',
                       'ss_rule_one_element', 'ss_rule_full_length', 'ss_rule_mismatch', 'ss_peer_fault_rejected',
                       'ss_dssp_molecule_checked', 'ss_translation_checked', 'ss_long_helix', 'ss_medium_helix', 'ss_short_helix']
    stub_components = PCheck.stub_components + ['the DSSP executable: in-process peer answering through the subprocess seam of '
                                                'vermouth.dssp.dssp (no DSSP binary in the sandbox); the mdtraj path is not driven']

    def budgets(self, tier):
        if tier == 'thorough':
            return {'runs': 14000, 'determinism': 60, 'wall': 3400, 'workers': 32}
        return {'runs': 300, 'determinism': 10, 'wall': 1800, 'workers': 32}


CHECK_C17 = core.register(C17Check())


def _c17_generate(self, rng, run_index, tier):
    sc = PCheck.generate(self, rng, run_index, tier)
    sc['task']['library'] = {'seed': rng.randrange(1 << 30), 'n': 300 if tier == 'thorough' else 100}
    return sc


def _c17_execute(self, scenario):
    raw = FLEET.submit(scenario['env'], scenario['task'], timeout=self.run_timeout).result()
    res = self.verdict(scenario, raw)
    if res['verdict'] != PASS or not raw.get('c17_library'):
        return res
    bad, n, st_probes = raw['c17_library']
    probes = res['stats']['probes']
    for k, v in st_probes.items():
        probes['lib:' + k] = probes.get('lib:' + k, 0) + v
        if k in ('ss_long_helix', 'ss_medium_helix', 'ss_short_helix', 'ss_unselected_before_selected', 'ss_rule_mismatch'):
            probes[k] = probes.get(k, 0) + v
    probes['library_systems'] = probes.get('library_systems', 0) + n
    if bad is not None:
        return result(VIOLATION, invariant=bad['invariant'] + ':library', signature=bad['signature'], expected=bad['expected'],
                      actual=bad['actual'], detail=bad['detail'], stats=res['stats'], run_digest=res['digest'])
    return res


C17Check.generate = _c17_generate
C17Check.execute = _c17_execute
C17Check.stub_components = C17Check.stub_components + [
    'library-level variant (probes lib:*, library_systems): the real AnnotateResidues / AnnotateMartiniSecondaryStructures run on '
    'generated systems without a process around them']

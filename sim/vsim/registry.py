"""Imports every check module so that they register themselves."""
from . import world_f  # noqa: F401
from . import world_m  # noqa: F401
from . import world_p  # noqa: F401
from . import world_h  # noqa: F401

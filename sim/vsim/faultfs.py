"""FaultFS: the file-system seam (DESIGN.md section 2, S5).

* An audit hook (installed once per process, inert unless armed) sees every
  ``open``/``os.rename``/``os.remove``/... the interpreter performs.  While a
  scenario is *armed* it is (a) a read-only monitor that records every mutating
  event below the scratch root, and (b) the place where crashes, ``OSError``s and
  cross-device renames are injected: an exception raised from the hook aborts the
  audited call before it has any effect, which is exactly "process death / failing
  syscall immediately before operation k" - independent of which Python API the
  code under test used to get there (``os.rename``, ``os.replace``,
  ``pathlib.Path.rename``, ``shutil.move`` ...).
* Data-level faults (torn write, partial copy followed by ENOSPC) need the bytes,
  so ``shutil.copyfile`` and the module-level ``_open`` of ``vermouth.file_writer``
  are wrapped as well.

Every mutating event below the root is numbered 1..N in the order it happens; the
fault plan maps an event number to a fault.  The numbering is deterministic because
the code under test is single threaded.
"""
import errno
import os
import shutil
import sys

ERRNO = {'ENOSPC': errno.ENOSPC, 'EIO': errno.EIO, 'EACCES': errno.EACCES,
         'EXDEV': errno.EXDEV, 'EROFS': errno.EROFS}

_WRITE_FLAGS = os.O_WRONLY | os.O_RDWR | os.O_CREAT | os.O_TRUNC | os.O_APPEND

MUTATING = {'os.rename', 'os.remove', 'os.rmdir', 'os.mkdir', 'os.truncate', 'os.link',
            'os.symlink', 'os.chmod', 'os.utime', 'os.chown', 'shutil.copyfile', 'shutil.move',
            'shutil.copystat', 'shutil.copymode', 'shutil.rmtree', 'open'}


class SimCrash(BaseException):
    """Simulated process death.  Nothing in memory survives; only the tree is inspected."""


class _State:
    fs = None


def _audit(event, args):
    fs = _State.fs
    if fs is None or not fs.armed:
        return
    if event not in MUTATING:
        return
    fs._event(event, args)


_INSTALLED = [False]
_REAL = {}


def install():
    """Install the audit hook and the data-level wrappers (idempotent)."""
    if _INSTALLED[0]:
        return
    _INSTALLED[0] = True
    sys.addaudithook(_audit)
    _REAL['copyfile'] = shutil.copyfile

    def copyfile(src, dst, *args, **kwargs):
        fs = _State.fs
        if fs is None or not fs.armed or not fs._inside(dst):
            return _REAL['copyfile'](src, dst, *args, **kwargs)
        return fs._copyfile(src, dst, *args, **kwargs)
    shutil.copyfile = copyfile

    import vermouth.file_writer as fw
    _REAL['fw_open'] = fw._open

    def fw_open(file, mode='r', *args, **kwargs):
        fs = _State.fs
        handle = _REAL['fw_open'](file, mode, *args, **kwargs)
        if fs is None or not fs.armed or not fs.finalising:
            return handle
        if not isinstance(file, (str, bytes, os.PathLike)) or not fs._inside(file) or fs._is_tmp(file):
            return handle
        if not any(c in mode for c in 'wa+x'):
            return handle
        return _TearFile(fs, handle, str(file))
    fw._open = fw_open


class _TearFile:
    """Proxy of a destination file opened for writing during finalisation."""

    def __init__(self, fs, handle, path):
        self._fs = fs
        self._h = handle
        self._path = path

    def write(self, data):
        fs = self._fs
        idx = fs._next('write', (self._path, len(data)))
        fault = fs.plan.get(idx)
        if fault and fault[0] in ('torn', 'partial_error'):
            cut = min(int(fault[1]), len(data))
            self._h.write(data[:cut])
            self._h.flush()
            fs.fired[fault[0] + ':write'] += 1
            if fault[0] == 'torn':
                # process dies: the rest of the user-space buffer never reaches the kernel
                try:
                    self._h.close()
                except Exception:
                    pass
                raise SimCrash('torn write at event %d' % idx)
            raise OSError(ERRNO[fault[2]], os.strerror(ERRNO[fault[2]]), self._path)
        fs._pre_fault(idx, 'write', self._path)
        n = self._h.write(data)
        self._h.flush()
        return n

    def close(self):
        return self._h.close()

    def __enter__(self):
        return self

    def __exit__(self, *exc):
        self._h.close()
        return False

    def __getattr__(self, name):
        return getattr(self._h, name)


class FaultFS:
    def __init__(self, root, tmpdir):
        self.root = os.path.realpath(root)
        self.tmpdir = os.path.realpath(tmpdir)
        self.armed = False
        self.finalising = False
        self.n = 0                     # number of mutating events seen in this arming
        self.log = []                  # [idx, event, relative args]
        self.plan = {}                 # idx -> fault tuple
        self.xdev = False
        self.fired = {}
        self.pre_finalise_mutations = []   # I1 monitor: mutating events outside tmp before finalise
        import collections
        self.fired = collections.Counter()

    # -- helpers ----------------------------------------------------------
    def _inside(self, path):
        try:
            p = os.path.abspath(os.fspath(path))
        except TypeError:
            return False
        if isinstance(p, bytes):
            p = p.decode()
        return p == self.root or p.startswith(self.root + os.sep)

    def _is_tmp(self, path):
        p = os.path.abspath(os.fspath(path))
        if isinstance(p, bytes):
            p = p.decode()
        return p == self.tmpdir or p.startswith(self.tmpdir + os.sep)

    def _rel(self, path):
        p = os.path.abspath(os.fspath(path))
        if isinstance(p, bytes):
            p = p.decode()
        if self._inside(p):
            return os.path.relpath(p, self.root)
        return '<outside>'

    def arm(self, plan=None, xdev=False, finalising=False):
        self.plan = dict(plan or {})
        self.xdev = xdev
        self.n = 0
        self.log = []
        self.finalising = finalising
        self.armed = True
        _State.fs = self

    def disarm(self):
        self.armed = False
        self.finalising = False

    def _next(self, name, args):
        self.n += 1
        self.log.append([self.n, name] + [a if isinstance(a, int) else self._rel(a) for a in args])
        return self.n

    def _pre_fault(self, idx, name, path):
        fault = self.plan.get(idx)
        if not fault:
            return
        kind = fault[0]
        if kind == 'crash':
            self.fired['crash:' + name] += 1
            raise SimCrash('crash before event %d (%s)' % (idx, name))
        if kind == 'error':
            self.fired['error:%s:%s' % (fault[1], name)] += 1
            raise OSError(ERRNO[fault[1]], os.strerror(ERRNO[fault[1]]), str(path))

    # -- audit events -----------------------------------------------------
    def _event(self, event, args):
        if event == 'open':
            path, mode, flags = (list(args) + [None, None])[:3]
            if not isinstance(path, (str, bytes, os.PathLike)):
                return
            writing = (isinstance(mode, str) and any(c in mode for c in 'wax+')) or \
                      (isinstance(flags, int) and flags & _WRITE_FLAGS)
            if not writing or not self._inside(path):
                return
            paths = [path]
        elif event in ('os.rename', 'os.link', 'os.symlink', 'shutil.copyfile', 'shutil.move',
                       'shutil.copystat', 'shutil.copymode'):
            paths = [a for a in args[:2] if isinstance(a, (str, bytes, os.PathLike))]
            if not any(self._inside(p) for p in paths):
                return
        else:
            paths = [a for a in args[:1] if isinstance(a, (str, bytes, os.PathLike))]
            if not paths or not self._inside(paths[0]):
                return
        if event in ('shutil.move', 'shutil.copyfile', 'shutil.copystat', 'shutil.copymode'):
            # composite calls: their constituent syscalls are audited separately
            self.log.append([0, event] + [self._rel(p) for p in paths])
            return
        non_tmp = [p for p in paths if self._inside(p) and not self._is_tmp(p)]
        if not self.finalising:
            if non_tmp:
                self.pre_finalise_mutations.append([event] + [self._rel(p) for p in paths])
            return
        name = event.split('.')[-1]
        idx = self._next(name, paths)
        if self.xdev and event == 'os.rename' and self._is_tmp(paths[0]) and not self._is_tmp(paths[1]):
            fault = self.plan.get(idx)
            if fault and fault[0] == 'crash':
                self._pre_fault(idx, name, paths[0])
            self.fired['xdev:rename'] += 1
            raise OSError(errno.EXDEV, os.strerror(errno.EXDEV), str(paths[0]))
        self._pre_fault(idx, name, paths[0])

    # -- data level -------------------------------------------------------
    def _copyfile(self, src, dst, *args, **kwargs):
        """shutil.copyfile onto a path below the root, with torn / partial variants."""
        if not self.finalising:
            return _REAL['copyfile'](src, dst, *args, **kwargs)
        # look ahead: the open(dst, 'wb') inside copyfile will be the next mutating event
        # (open(src,'rb') is not mutating) unless src is below the root and opened for writing.
        fault = self.plan.get(self.n + 1)
        if fault and fault[0] in ('torn', 'partial_error'):
            with open(src, 'rb') as fsrc:
                data = fsrc.read()
            cut = min(int(fault[1]), len(data))
            with open(dst, 'wb') as fdst:     # audited: becomes event n+1
                fdst.write(data[:cut])
            self.fired[fault[0] + ':copy'] += 1
            if fault[0] == 'torn':
                raise SimCrash('torn copy at event %d' % self.n)
            raise OSError(ERRNO[fault[2]], os.strerror(ERRNO[fault[2]]), str(dst))
        return _REAL['copyfile'](src, dst, *args, **kwargs)


class _CounterNames:
    """Replacement for tempfile's random name sequence (S3): names are sim000001, ..."""

    def __init__(self):
        self.n = 0

    def __iter__(self):
        return self

    def __next__(self):
        self.n += 1
        return 'sim%06d' % self.n


_NAMES = _CounterNames()


def deterministic_tempnames():
    import tempfile
    tempfile._name_sequence = _NAMES


def reset_tempnames():
    _NAMES.n = 0

"""Unit tests of the harness itself (run by setup.sh): readers against the shipped golden
files, reference formulas on worked examples, the fault seam fires."""
import glob
import os
import shutil
import sys
import tempfile

from . import core, itpcheck, peval, ssoracle, world_h, faultfs


def check(cond, what):
    if not cond:
        raise AssertionError(what)


def main():
    data = os.path.join(core.REPO, 'vermouth', 'tests', 'data', 'integration_tests')
    n = 0
    for path in sorted(glob.glob(os.path.join(data, 'tier-*', '*', 'martinize2', '*.itp'))):
        if os.path.basename(path) in ('go_atomtypes.itp', 'go_nbparams.itp', 'virtual_sites_atomtypes.itp',
                                      'virtual_sites_nonbond_params.itp'):
            continue
        parsed = itpcheck.parse_itp(open(path).read())
        check(parsed['moltype'] is not None and parsed['atoms'], 'ITP reader: %s' % path)
        check([t[0] for t in parsed['atoms']] == [str(i) for i in range(1, len(parsed['atoms']) + 1)], 'atom numbering %s' % path)
        for section, guard, tokens, comment in parsed['records']:
            check(section in peval.INTERACTION_ARITY or section in ('exclusions', 'virtual_sitesn'), 'section %s in %s' % (section, path))
        n += 1
    for path in sorted(glob.glob(os.path.join(data, 'tier-*', '*', 'martinize2', '*.top'))):
        top = peval.parse_top(open(path).read())
        check(top['molecules'], 'TOP reader: %s' % path)
        n += 1
    for path in sorted(glob.glob(os.path.join(data, 'tier-*', '*', 'martinize2', 'cg.pdb'))):
        mols = peval.parse_pdb(open(path).read())
        check(mols and all(mols), 'PDB reader: %s' % path)
        n += 1
    # C08 reference, worked examples from the statement
    W = 30
    recs = [(W, 'a')] * 5 + [(W, 'b')] * 2 + [(40, 'a')]
    check(peval.reference_R(recs, []) == (8, True), 'R no spec')
    check(peval.reference_R(recs, ['a:3']) == (1 + 2 + 2, True), 'R numbered')
    check(peval.reference_R(recs, ['a:3', 'a:4', '1']) == (1 + 1 + 1, True), 'R max limit + blanket')
    check(peval.reference_R(recs, ['a', 'b']) == (1, True), 'R named; errors never waived')
    check(peval.reference_R(recs, ['a', 'a:2'])[1] is False, 'R ambiguous spec')
    check(peval.reference_R(recs, ['-5', 'c:9'])[0] == 8, 'R negative / absent type')
    # C17 helix rules
    for src, want in [('H', '3'), ('HHHH', '3333'), ('HHHHH', '13332'), ('CHHHHHHC', 'C113322C'), ('HHHHHHH', '1113222'),
                      ('HHHHHHHH', '11112222'), ('EHHHHHHHHHT', 'E11112222' [:1] + '1111H2222T'), ('GIB', '33E')]:
        got = ''.join(ssoracle.martini_classes(src))
        if src == 'EHHHHHHHHHT':
            want = 'E1111H2222T'
        check(got == want, 'helix rules %s -> %s (want %s)' % (src, got, want))
    # brute force oracle
    tri = {'n': 3, 'colors': [0, 0, 0], 'edges': {(0, 1): 0, (1, 2): 0, (0, 2): 0}}
    check(len(world_h.isos(tri, tri)) == 6, 'triangle automorphisms')
    path3 = {'n': 3, 'colors': [0, 0, 0], 'edges': {(0, 1): 0, (1, 2): 0}}
    check(len(world_h.isos(tri, path3)) == 0 and world_h.max_common(tri, path3)[0] == 2, 'induced semantics')
    # fault seam fires
    faultfs.install()
    base = tempfile.mkdtemp(prefix='vsim-selftest-', dir=core.scratch_base())
    try:
        os.makedirs(os.path.join(base, 'tmpd'))
        open(os.path.join(base, 'a'), 'w').write('x')
        fs = faultfs.FaultFS(base, os.path.join(base, 'tmpd'))
        fs.arm(plan={1: ['crash']}, finalising=True)
        try:
            os.rename(os.path.join(base, 'a'), os.path.join(base, 'b'))
            crashed = False
        except faultfs.SimCrash:
            crashed = True
        finally:
            fs.disarm()
        check(crashed and os.path.exists(os.path.join(base, 'a')), 'crash before rename leaves the source in place')
        fs.arm(plan={1: ['error', 'ENOSPC']}, finalising=True)
        try:
            open(os.path.join(base, 'c'), 'w')
            raised = False
        except OSError as err:
            raised = err.errno == 28
        finally:
            fs.disarm()
        check(raised, 'errno injection on open')
    finally:
        shutil.rmtree(base, ignore_errors=True)
    print('vsim selftest ok: %d golden files read' % n)
    return 0


if __name__ == '__main__':
    sys.exit(main())

"""Oracles evaluated on one simulated martinize2 run (World P): C02, C03, C07 (layer 2),
C08, C17, and the canonical topology returned for the group comparison of C11.

Everything is computed from what an outside observer has: the directory tree before and
after, the independent record of log events, the exit status, snapshots taken at the
writer seams, and the answer the DSSP peer gave.
"""
import collections
import logging
import os
import re

from . import core, itpcheck
from .core import HarnessError

BACKUP_RE = re.compile(r'^#(?P<name>.*)\.(?P<idx>[1-9][0-9]*)#$')


def read_tree(root, skip):
    out = {}
    for dirpath, dirnames, filenames in os.walk(root):
        dirnames.sort()
        dirnames[:] = [d for d in dirnames if os.path.abspath(os.path.join(dirpath, d)) != skip]
        for fn in sorted(filenames):
            p = os.path.join(dirpath, fn)
            try:
                with open(p, 'rb') as handle:
                    out[os.path.relpath(p, root)] = handle.read()
            except OSError:
                out[os.path.relpath(p, root)] = b'<unreadable>'
    return out


# ---------------------------------------------------------------------------
# C08 reference

def parse_maxwarn(argv):
    """Specification strings following -maxwarn flags (the CLI grammar: bare number, type, type:count)."""
    specs = []
    i = 0
    while i < len(argv):
        if argv[i] == '-maxwarn':
            i += 1
            while i < len(argv) and not (argv[i].startswith('-') and not _is_number(argv[i])):
                specs.append(argv[i])
                i += 1
        else:
            i += 1
    return specs


def _is_number(text):
    try:
        int(text)
        return True
    except ValueError:
        return False


def reference_R(records, spec_strings):
    """The statement of C08 transcribed.  -> (R, comparable)"""
    above = sum(1 for lvl, _t in records if lvl > logging.WARNING)
    warn = collections.Counter(t for lvl, t in records if lvl == logging.WARNING)
    numbered = {}
    named = set()
    bare = []
    for s in spec_strings:
        parts = s.split(':')
        if len(parts) == 1:
            if _is_number(s):
                bare.append(int(s))
            else:
                named.add(s)
        else:
            numbered.setdefault(parts[0], []).append(int(parts[1]))
    comparable = not (named & set(numbered))
    total = above
    rest = 0
    for t, n in warn.items():
        if t in numbered:
            limit = max(0, max(numbered[t]))
            total += max(0, n - limit)
        elif t in named:
            pass
        else:
            rest += n
    blanket = max([0] + bare)
    total += max(0, rest - blanket)
    return total, comparable


# ---------------------------------------------------------------------------
# readers

def parse_top(text):
    out = {'includes': [], 'defines': [], 'molecules': [], 'system': None}
    section = None
    for raw in text.splitlines():
        line = raw.split(';', 1)[0].strip()
        if not line:
            continue
        if line.startswith('#include'):
            out['includes'].append(line.split(None, 1)[1].strip().strip('"'))
        elif line.startswith('#define'):
            out['defines'].append(line.split()[1:])
        elif line.startswith('#'):
            raise HarnessError('top: unknown directive %r' % raw)
        elif line.startswith('['):
            section = line.strip('[] ').strip()
        elif section == 'molecules':
            name, count = line.split()
            out['molecules'].append((name, int(count)))
        elif section == 'system':
            out['system'] = line
        else:
            raise HarnessError('top: unexpected line %r in section %r' % (raw, section))
    return out


def parse_pdb(text):
    """-> list of molecules (split at TER/END), each a list of atom dicts; plus CONECT count."""
    mols = []
    cur = []
    for line in text.splitlines():
        rec = line[:6].strip()
        if rec in ('ATOM', 'HETATM'):
            cur.append({'serial': line[6:11], 'name': line[12:16].strip(), 'resname': line[17:20].strip(),
                        'chain': line[21], 'resid': int(line[22:26]), 'icode': line[26],
                        'xyz': (float(line[30:38]), float(line[38:46]), float(line[46:54]))})
        elif rec in ('TER', 'END', 'ENDMDL'):
            if cur:
                mols.append(cur)
                cur = []
    if cur:
        mols.append(cur)
    return mols


# ---------------------------------------------------------------------------

def evaluate(child):
    task = child.task
    argv = list(task['argv'])
    upto = child.records_at_gate if child.records_at_gate is not None else len(child.recorder.records)
    records = [(lvl, t) for lvl, t, _m in child.recorder.records[:upto] if lvl >= logging.WARNING]
    specs = parse_maxwarn(argv)
    R, comparable = reference_R(records, specs)
    stats = child.stats
    res = {'outcome': child.outcome, 'R': R, 'leftover': child.leftover, 'n_records': len(records),
           'stages': child.stages, 'traceback': child.traceback}
    gate_reached = child.leftover is not None
    injected_fs = bool(task.get('fs') and (task['fs'].get('crash_at') or task['fs'].get('error_at') or task['fs'].get('torn_at')))
    fs_fired = any(k.split(':')[0] in ('crash', 'error', 'torn', 'partial_error') for k in stats.faults)

    # ---------------------------------------------------------------- C08
    if gate_reached:
        stats.probes['gate_reached'] += 1
        if records:
            stats.probes['gate_with_warnings'] += 1
        if comparable:
            if child.leftover != R:
                child.fail('C08', 'accounting', expected=R, actual=child.leftover,
                           detail={'records': sorted(collections.Counter(records).items()), 'maxwarn': specs})
            printed = [m for lvl, t, m in child.recorder.records if lvl >= logging.ERROR and m and 'warnings were encountered' in m]
            if R > 0:
                if not printed or not printed[0].startswith('%d ' % R):
                    child.fail('C08', 'printed-count', expected='%d warnings were encountered ...' % R,
                               actual=printed[:1])
            elif printed:
                child.fail('C08', 'printed-count', expected='no leftover-warning error', actual=printed[:1])
        else:
            stats.probes['maxwarn_ambiguous_spec'] += 1
        if child.leftover is not None and child.leftover < 0:
            child.fail('C08', 'negative', expected='>= 0', actual=child.leftover)
        if any(lvl > logging.WARNING for lvl, _ in records) and child.leftover == 0:
            child.fail('C08', 'error-waived', expected='> 0', actual=0)

    # ---------------------------------------------------------------- C07 layer 2
    exempt = child.exempt_paths()

    def relevant(path):
        return (os.path.normpath(path) not in exempt and not os.path.basename(path).startswith('dssp_in_')
                and not path.startswith('tmpd'))

    changed = sorted(p for p in set(child.tree) | set(child.pre)
                     if relevant(p) and child.tree.get(p) != child.pre.get(p))
    if gate_reached and comparable:
        if R > 0:
            # the error record of the gate itself is logged after the count; it is not part of R
            if child.outcome in ('exit:0',) or child.finalise_called:
                child.fail('C07', 'gate-finalised-with-warnings', expected='non-zero exit, no finalisation',
                           actual={'outcome': child.outcome, 'finalise_called': child.finalise_called, 'R': R})
            if not child.outcome.startswith('exit:') or child.outcome == 'exit:0':
                child.fail('C07', 'gate-exit-status', expected='non-zero exit status', actual=child.outcome)
            stats.probes['gate_closed'] += 1
        else:
            if not child.finalise_called:
                child.fail('C07', 'gate-not-finalised', expected='finalisation when no warnings are left',
                           actual={'outcome': child.outcome, 'R': R})
            stats.probes['gate_open'] += 1
    if child.finalise_called and child.records_at_finalise is not None:
        # "finalises only when the warnings left after -maxwarn number zero": evaluated on everything that was
        # logged before finalisation started, whenever the program took its count
        recs_f = [(lvl, t) for lvl, t, _m in child.recorder.records[:child.records_at_finalise] if lvl >= logging.WARNING]
        recs_f = [r for r in recs_f]
        gate_msgs = sum(1 for lvl, t, m in child.recorder.records[:child.records_at_finalise]
                        if lvl >= logging.ERROR and m and 'warnings were encountered' in m)
        r_fin, comp_f = reference_R(recs_f, specs)
        if comp_f and r_fin - gate_msgs > 0:
            child.fail('C07', 'finalised-with-warnings-pending', expected='no finalisation: %d warning(s)/error(s) not waived' % r_fin,
                       actual={'outcome': child.outcome, 'records': sorted(collections.Counter(recs_f).items())[:6]},
                       signature='finalised-with-warnings-pending')
            child.fail('C08', 'uncounted-records', expected='every record logged before finalisation is accounted',
                       actual={'counted_by_program': child.leftover, 'reference_at_finalisation': r_fin},
                       signature='uncounted-records')
    if not child.finalise_called:
        if changed:
            child.fail('C07', 'output-without-finalisation', expected='working directory unchanged',
                       actual={p: (child.tree.get(p) or b'')[:40].decode('latin1') for p in changed[:4]},
                       detail={'outcome': child.outcome, 'R': R})
        if child.outcome != 'exit:0':
            stats.probes['no_output_on_failure'] += 1
    else:
        lost = []
        for p, old in sorted(child.pre.items()):
            if not relevant(p) or child.tree.get(p) == old:
                continue
            d, name = os.path.split(p)
            backups = {k: v for k, v in child.tree.items() if os.path.dirname(k) == d
                       and BACKUP_RE.match(os.path.basename(k)) and BACKUP_RE.match(os.path.basename(k)).group('name') == name}
            if not any(v == old for v in backups.values()):
                lost.append(p)
                continue
            if child.finalise_outcome == 'done' and not fs_fired:
                idx = 1
                while os.path.join(d, '#%s.%d#' % (name, idx)) in child.pre:
                    idx += 1
                first_free = os.path.join(d, '#%s.%d#' % (name, idx))
                if child.tree.get(first_free) != old:
                    child.fail('C07', 'I2-backup', expected='%s holds the old %s' % (first_free, p),
                               actual=sorted(backups))
                stats.probes['cli_backup_made'] += 1
        if lost:
            child.fail('C07', 'I3-preexisting-lost', expected='old file intact in place or under a backup name',
                       actual=lost, detail={'finalise': child.finalise_outcome, 'fs_log': getattr(child, 'fs_log', [])[-8:]})
        if child.finalise_outcome == 'done' and not fs_fired:
            if child.outcome != 'exit:0':
                child.fail('C07', 'exit-after-finalise', expected='exit:0', actual=child.outcome, detail=child.traceback)
            left = [p for p in child.tree if p.startswith('tmpd')]
            left = os.listdir(child.tmpdir) if os.path.isdir(child.tmpdir) else []
            if left:
                child.fail('C07', 'I2-temp-left', expected=[], actual=sorted(left))
            # what was written is what is on disk
            renames = {}
            for ev in getattr(child, 'fs_log', []):
                if ev[1] == 'rename' and len(ev) > 3 and ev[2].startswith('tmpd'):
                    renames[os.path.basename(ev[2])] = ev[3]
            for call in child.itp_calls:
                tmpname = os.path.basename(str(call['file'])) if call['file'] else None
                dest = renames.get(tmpname)
                if dest is None:
                    continue
                on_disk = child.tree.get(dest)
                if on_disk is None or on_disk.decode('utf8', 'replace') != call['text']:
                    child.fail('C07', 'I2-content', expected='%s holds exactly what was written for it' % dest,
                               actual=(on_disk or b'<missing>')[:80].decode('latin1'))
                stats.probes['cli_content_checked'] += 1
        elif fs_fired:
            stats.probes['cli_finalise_interrupted'] += 1
    if injected_fs and not fs_fired:
        stats.probes['fs_fault_not_reached'] += 1

    # ---------------------------------------------------------------- outputs: C02, C03, C11
    finished = child.finalise_called and child.finalise_outcome == 'done' and not fs_fired and child.outcome == 'exit:0'
    topology = None
    if finished:
        try:
            topology = evaluate_outputs(child, argv, stats)
        except HarnessError:
            raise
    # C02 on every intercepted writer call, finished or not
    for call in child.itp_calls:
        snap = call['snap']
        if 'error' in snap:
            continue
        try:
            parsed = itpcheck.parse_itp(call['text'])
        except itpcheck.ParseProblem as err:
            child.fail('C02', 'itp-malformed', expected='a well-formed ITP', actual=str(err), detail={'moltype': snap.get('moltype')})
            continue
        problems = itpcheck.compare(snap, parsed)
        stats.probes['itp_pipeline_call'] += 1
        if problems:
            child.fail('C02', 'itp-roundtrip', expected='text states the molecule in memory', actual=problems[:4],
                       detail={'moltype': snap.get('moltype')})

    # ---------------------------------------------------------------- C17
    if child.peer is not None or '-ss' in argv or '-collagen' in argv:
        from . import ssoracle
        ssoracle.evaluate(child, argv, stats)

    stats.nontrivial = bool(records) or finished or child.finalise_called
    stats.execs = 1
    if finished:
        stats.probes['finished_with_output'] += 1
    stats.counters['outcome:' + child.outcome] += 1
    run_digest = core.digest([child.outcome, child.stages, records, child.leftover,
                              sorted((k, core.digest(v)) for k, v in child.tree.items() if not k.startswith('tmpd')),
                              [[f['property'], f['invariant']] for f in child.failed]])
    stats.states.add(core.digest([child.stages]))
    if child.task.get('want_tree'):
        res['final_tree'] = [[k, core.b64(v)] for k, v in sorted(child.tree.items()) if not k.startswith('tmpd') and k != 'input.pdb']
    if child.finalise_outcome == 'crash':
        # the driver may simulate the user starting the program again in this directory
        res['crashed_tree'] = [[k, core.b64(v)] for k, v in sorted(child.tree.items())
                               if not k.startswith('tmpd') and k != 'input.pdb']
    res.update({'failed': child.failed, 'topology': topology, 'stats': stats.to_json(), 'digest': run_digest,
                'finished': finished,
                'events_tail': [[lvl, t, (m or '')[:160]] for lvl, t, m in child.recorder.records if lvl >= logging.WARNING][-12:]})
    return res


def evaluate_outputs(child, argv, stats):
    tree = child.tree
    outpath = argv[argv.index('-x') + 1] if '-x' in argv else None
    toppath = argv[argv.index('-o') + 1] if '-o' in argv else None
    if outpath is None or os.path.normpath(outpath) not in tree:
        child.fail('C07', 'missing-output', expected='-x file written', actual=sorted(tree)[:10])
        return None
    pdb_mols = parse_pdb(tree[os.path.normpath(outpath)].decode())
    topology = {'molecules': [], 'coords': [], 'dummies': []}
    if toppath is None:
        topology['coords'] = [[(a['name'], a['resname'], a['resid'], a['xyz']) for a in mol] for mol in pdb_mols]
        return topology
    if os.path.normpath(toppath) not in tree:
        child.fail('C07', 'missing-output', expected='-o file written', actual=sorted(tree)[:10])
        return None
    top = parse_top(tree[os.path.normpath(toppath)].decode())
    names = [n for n, c in top['molecules'] for _ in range(c)]
    stats.probes['c03_outputs_parsed'] += 1
    # (iii) includes
    mol_includes = [inc for inc in top['includes'] if inc != 'martini.itp']
    counts = collections.Counter(mol_includes)
    for name in sorted(set(names)):
        fn = '%s.itp' % name
        if counts.get(fn, 0) != 1:
            child.fail('C03', 'include-once', expected='%s included exactly once' % fn,
                       actual={'includes': top['includes']}, signature='include-once:%d' % counts.get(fn, 0))
        if fn not in tree:
            child.fail('C03', 'include-exists', expected='%s exists' % fn, actual=sorted(tree))
    for inc, n in counts.items():
        if n > 1 and inc[:-4] not in names:
            child.fail('C03', 'include-once', expected='each file included once', actual=top['includes'])
    # (ii) molecules vs coordinate file
    if len(names) != len(pdb_mols):
        child.fail('C03', 'molecule-count', expected='%d molecules in [molecules]' % len(names),
                   actual='%d molecules in the coordinate file' % len(pdb_mols))
        return None
    if any(c < 1 for _, c in top['molecules']):
        child.fail('C03', 'molecule-count', expected='positive counts', actual=top['molecules'])
    adjacent_same = [i for i in range(len(top['molecules']) - 1) if top['molecules'][i][0] == top['molecules'][i + 1][0]]
    if adjacent_same:
        child.fail('C03', 'molecules-not-grouped', expected='successive identical types are listed once with a count',
                   actual=top['molecules'])
    if len(set(names)) < len(names):
        stats.probes['c03_shared_moltype'] += 1
        order = []
        for n in names:
            if not order or order[-1] != n:
                order.append(n)
        if len(order) > len(set(order)):
            stats.probes['c03_interleaved_moltype'] += 1
    # (i) atom for atom
    itps = {}
    for name in set(names):
        fn = '%s.itp' % name
        if fn in tree:
            try:
                itps[name] = itpcheck.parse_itp(tree[fn].decode())
            except itpcheck.ParseProblem as err:
                child.fail('C03', 'itp-unreadable', expected='%s is a well-formed ITP' % fn, actual=str(err))
                continue
            if itps[name]['moltype'] is None or itps[name]['moltype'][0] != name:
                child.fail('C03', 'moltype-name', expected=name, actual=itps[name]['moltype'])
    for j, (name, atoms) in enumerate(zip(names, pdb_mols)):
        itp = itps.get(name)
        if itp is None:
            continue
        if len(itp['atoms']) != len(atoms):
            child.fail('C03', 'atom-count', expected='%d atoms in %s.itp' % (len(itp['atoms']), name),
                       actual='%d coordinate records for molecule %d' % (len(atoms), j))
            continue
        for k, (rec, tokens) in enumerate(zip(atoms, itp['atoms'])):
            want = (tokens[4][:4], tokens[3][:3], int(tokens[2]) % 10000)
            got = (rec['name'], rec['resname'], rec['resid'] % 10000)
            if want != got:
                child.fail('C03', 'atom-for-atom', expected={'itp': want, 'molecule': j, 'atom': k + 1, 'moltype': name},
                           actual={'pdb': got})
                break
    # (iv) one ITP valid for all molecules of that name
    groups = collections.OrderedDict()
    for moltype, text in child.same_moltype_texts:
        groups.setdefault(moltype, []).append(text)
    for moltype, texts in groups.items():
        if len(texts) > 1:
            stats.probes['c03_dedup_group'] += 1
            base = texts[0]
            for t in texts[1:]:
                if t != base:
                    diff = _first_diff(base, t)
                    sig = 'shared-moltype-differs'
                    pb, pt = itpcheck.parse_itp(base), itpcheck.parse_itp(t)
                    if pb['atoms'] == pt['atoms']:
                        ra = collections.Counter((s, g, tuple(tk)) for s, g, tk, c in pb['records'] if c != 'Rubber band' or True)
                        sig = 'shared-moltype-differs:' + ','.join(sorted(set(
                            s for (s, g, tk) in (collections.Counter((s, g, tuple(tk)) for s, g, tk, c in pb['records'])
                                                 - collections.Counter((s, g, tuple(tk)) for s, g, tk, c in pt['records'])))))
                        _ = ra
                    child.fail('C03', 'shared-moltype-differs', expected='molecules named %s have identical topologies' % moltype,
                               actual=diff, signature=sig)
                    break
    # canonical topology for C11
    dummies = set()
    system = child.system_at_write
    for j, name in enumerate(names):
        itp = itps.get(name)
        if itp is None:
            continue
        atoms = [(int(t[2]), t[3], t[4], t[1], int(t[5])) + tuple(t[6:8]) for t in itp['atoms']]
        keys = [(a[0], a[2]) for a in atoms]
        unique = len(set(keys)) == len(keys)

        def key_of(tok, keys=keys, unique=unique):
            i = int(tok) - 1
            return list(keys[i]) if unique and 0 <= i < len(keys) else int(tok)
        inter = []
        arity = INTERACTION_ARITY
        for section, guard, tokens, _c in itp['records']:
            n = arity.get(section)
            if section == 'virtual_sitesn':
                atoms_t = [tokens[0]] + tokens[2:]
                params = tokens[1:2]
            elif section == 'exclusions' or n is None:
                if n is None and section != 'exclusions':
                    raise HarnessError('unknown ITP section %r' % section)
                atoms_t, params = tokens, []
            else:
                atoms_t, params = tokens[:n], tokens[n:]
            inter.append([section, list(guard) if guard else None, [key_of(t) for t in atoms_t], params])
        topology['molecules'].append({'name': name, 'atoms': [list(a) for a in atoms], 'inter': inter})
        topology['coords'].append([[rec['name'], rec['resid'], list(rec['xyz'])] for rec in pdb_mols[j]])
    if system is not None:
        for j, mol in enumerate(system.molecules):
            for node in mol.nodes.values():
                if node.get('charge_dummy') is not None:
                    dummies.add((j, node.get('resid'), node.get('atomname')))
    topology['dummies'] = sorted(dummies)
    return topology


INTERACTION_ARITY = {'bonds': 2, 'constraints': 2, 'pairs': 2, 'pairs_nb': 2, 'angles': 3, 'dihedrals': 4, 'cmap': 5,
                     'settles': 1, 'position_restraints': 1, 'virtual_sites2': 3, 'virtual_sites3': 4,
                     'virtual_sites4': 5, 'virtual_sites1': 2, 'distance_restraints': 2, 'angle_restraints': 4,
                     'dihedral_restraints': 4, 'orientation_restraints': 2}


def _first_diff(a, b):
    la, lb = a.splitlines(), b.splitlines()
    for i, (x, y) in enumerate(zip(la, lb)):
        if x != y:
            return {'line': i + 1, 'first': x, 'other': y}
    return {'line': min(len(la), len(lb)) + 1, 'first': '<%d lines>' % len(la), 'other': '<%d lines>' % len(lb)}

"""World F - the deferred writer on a faulty file system (C07 layer 1).

System under test: the real ``vermouth.file_writer.DeferredFileWriter`` singleton.
Reference model: ``WriterModel`` (DESIGN.md appendix A); handle semantics of the
buffer of a pending entry are those of a plain file, so the model keeps the buffer in
a shadow file outside the scratch tree and opens it with the builtin ``open``.

For every scenario (history) the run executes fault-free first (strong oracle I1, I2),
records the N mutating file-system events of every finalisation, and then re-executes
the same history once per crash point (complete enumeration for that history), per
torn-write variant and per sampled I/O-error placement (oracle I3, I4).
"""
import os
import re
import shutil

from . import core, faultfs
from .core import HarnessError, VIOLATION, PASS, result
from .faultfs import SimCrash

TEXT_MODES = ('w', 'a', 'r+', 'w+')
BIN_MODES = ('wb', 'ab', 'r+b', 'w+b')
WEAK_MODES = ('a+', 'x')
NAMES = ['a.txt', 'b.itp', 'c.top', 'd.pdb', 'noext', 'e.tar.gz', '#odd#', 'sp ace.gro', 'chain[A].top', 'x*y?.itp', '[1-3].pdb']
BACKUP_RE = re.compile(r'^#(?P<name>.*)\.(?P<idx>[1-9][0-9]*)#$')
CRASH_STOP = object()


def payload(tag, size, binary, spice=False):
    """Deterministic payload of exactly ``size`` bytes/characters starting with ``tag``."""
    unit = ('%s|' % tag)
    text = (unit * (size // len(unit) + 1))[:size]
    if size > 40:
        # make line structure so that text files look like text
        text = '\n'.join(text[i:i + 63] for i in range(0, len(text), 63))[:size]
    # line endings and bytes that a text-mode round trip would alter: the destination must hold them as written
    if spice and size >= 12 and sum(map(ord, tag)) % 3 == 0:
        text = text[:5] + '\r\n' + text[7:9] + '\r' + text[10:]
    if not binary:
        return text
    data = text.encode()
    if spice and size >= 12 and sum(map(ord, tag)) % 4 == 1:
        data = data[:3] + b'\xff\x00' + data[5:]
    return data


def backup_names_of(rel):
    """Predicate factory: is ``other`` a backup name of relative path ``rel``?"""
    d, name = os.path.split(rel)

    def is_backup(other):
        od, oname = os.path.split(other)
        if od != d:
            return False
        m = BACKUP_RE.match(oname)
        return bool(m and m.group('name') == name)
    return is_backup


def read_tree(root, skip):
    """{relative path: bytes} of all files below root except the ``skip`` directory."""
    out = {}
    for dirpath, dirnames, filenames in os.walk(root):
        dirnames.sort()
        if os.path.abspath(dirpath) == skip:
            dirnames[:] = []
            continue
        dirnames[:] = [d for d in dirnames if os.path.abspath(os.path.join(dirpath, d)) != skip]
        for fn in sorted(filenames):
            p = os.path.join(dirpath, fn)
            with open(p, 'rb') as handle:
                out[os.path.relpath(p, root)] = handle.read()
    return out


def short_tree(tree):
    return {k: (v[:24].decode('latin1') + ('..(%d)' % len(v) if len(v) > 24 else '')) for k, v in sorted(tree.items())}


class Violation(Exception):
    def __init__(self, invariant, expected=None, actual=None, signature=None, detail=None):
        super().__init__(invariant)
        self.invariant = invariant
        self.expected = expected
        self.actual = actual
        self.signature = signature or invariant
        self.detail = detail


class WriterModel:
    def __init__(self, shadow_dir):
        self.fs = {}             # rel path -> bytes
        self.pending = []        # dicts: dest (rel), mode0, shadow, weak
        self.shadow_dir = shadow_dir
        self.counter = 0
        self.tainted = set()     # destinations whose finalisation was interrupted by an I/O error

    def entry(self, rel):
        for e in self.pending:
            if e['dest'] == rel:
                return e
        return None

    @staticmethod
    def category(mode):
        if 'w' in mode or '+' in mode:
            return 'write'
        if 'a' in mode:
            return 'append'
        return 'read'

    def open(self, rel, mode):
        """-> ('handle', shadow file object) | ('raise', exception class) | ('plain', bytes)"""
        e = self.entry(rel)
        if e is not None:
            cat = self.category(mode)
            if cat != 'read' and cat != self.category(e['mode0']):
                e['weak'] = True
            if 'x' in mode:
                return ('raise', FileExistsError)
            return ('handle', open(e['shadow'], mode))
        if 'x' in mode:
            return ('raise', Exception)
        if '+' in mode or 'a' in mode or 'w' in mode:
            buf = b''
            if 'r' in mode and '+' in mode:
                if rel not in self.fs:
                    return ('raise', FileNotFoundError)
                buf = self.fs[rel]
            self.counter += 1
            shadow = os.path.join(self.shadow_dir, 's%d' % self.counter)
            with open(shadow, 'wb') as handle:
                handle.write(buf)
            e = {'dest': rel, 'mode0': mode, 'shadow': shadow, 'weak': mode in WEAK_MODES or 'a+' in mode}
            self.pending.append(e)
            return ('handle', open(shadow, mode))
        if rel not in self.fs:
            return ('raise', FileNotFoundError)
        return ('plain', self.fs[rel])

    def content(self, e):
        with open(e['shadow'], 'rb') as handle:
            return handle.read()

    def first_free_backup(self, rel):
        d, name = os.path.split(rel)
        idx = 1
        while os.path.join(d, '#%s.%d#' % (name, idx)) in self.fs:
            idx += 1
        return os.path.join(d, '#%s.%d#' % (name, idx))

    def finalise_entry(self, e):
        new = self.content(e)
        rel = e['dest']
        if self.category(e['mode0']) == 'write':
            if rel in self.fs:
                self.fs[self.first_free_backup(rel)] = self.fs[rel]
            self.fs[rel] = new
        else:
            self.fs[rel] = self.fs.get(rel, b'') + new

    def finalise(self):
        for e in self.pending:
            self.finalise_entry(e)
        self.pending = []

    def discard(self):
        self.pending = []


class Execution:
    """One execution of a scenario under one fault plan."""

    def __init__(self, scenario, plan_for_finalise, stats, base, pre_tree=None):
        self.sc = scenario
        self.pre_tree = pre_tree
        self.plans = plan_for_finalise      # {finalise ordinal: {event idx: fault}}
        self.stats = stats
        self.base = base
        self.root = os.path.join(base, 'root')
        self.tmpdir = os.path.join(self.root, 'tmpd')
        self.shadow = os.path.join(base, 'shadow')
        self.events = []
        self.finalise_logs = []             # per finalise: list of FaultFS log entries
        self.crashed = False
        self.error_seen = False

    def tree(self):
        return read_tree(self.root, self.tmpdir)

    def setup(self):
        shutil.rmtree(self.base, ignore_errors=True)
        os.makedirs(self.tmpdir)
        os.makedirs(self.shadow)
        for d in self.sc['dirs']:
            os.makedirs(os.path.join(self.root, d), exist_ok=True)
        self.model = WriterModel(self.shadow)
        pre = self.pre_tree if self.pre_tree is not None else {rel: core.unb64(data) for rel, data in self.sc['pre']}
        for rel, data in pre.items():
            os.makedirs(os.path.dirname(os.path.join(self.root, rel)), exist_ok=True)
            with open(os.path.join(self.root, rel), 'wb') as handle:
                handle.write(data)
            self.model.fs[rel] = data
        import vermouth.file_writer as fw
        self.fw = fw
        self.writer = fw.DeferredFileWriter()
        self.writer.open_files.clear()
        self.writer._tmpdir = self.tmpdir
        faultfs.reset_tempnames()
        self.fs = faultfs.FaultFS(self.root, self.tmpdir)
        self.handle_modes = {}
        self.handle_paths = {}
        self.handles = {}          # hid -> (real handle | None, model handle | None, binary)
        self.cwd = self.root
        self.n_finalise = 0

    # ---------------------------------------------------------------- ops
    def check_i1(self, where):
        """Destinations untouched outside finalisation."""
        tree = self.tree()
        if tree != self.model.fs:
            diff = sorted(set(k for k in set(tree) | set(self.model.fs) if tree.get(k) != self.model.fs.get(k)))
            raise Violation('I1-deferral', expected=short_tree({k: self.model.fs[k] for k in diff if k in self.model.fs}),
                            actual=short_tree({k: tree[k] for k in diff if k in tree}),
                            detail='tree changed outside finalisation (%s): %s' % (where, diff))
        if self.fs.pre_finalise_mutations:
            raise Violation('I1-deferral-monitor', expected=[], actual=self.fs.pre_finalise_mutations[:5],
                            detail='mutating file-system call on a non-temporary path outside finalisation (%s)' % where)

    def sut(self, func, *args, **kwargs):
        """Call into the system under test with the monitor armed (not finalising)."""
        self.fs.arm(finalising=False)
        os.chdir(self.cwd)
        try:
            return ('ok', func(*args, **kwargs))
        except SimCrash:
            raise
        except Exception as err:  # the SUT may legitimately reject an operation
            return ('raise', err)
        finally:
            self.fs.disarm()
            os.chdir(self.base)

    def op_open(self, hid, rel, mode, relative):
        target = os.path.join(self.root, rel)
        if relative:
            target = os.path.relpath(target, self.cwd)
        if rel in self.model.tainted:
            # destination of a finalisation that was interrupted by an I/O error: what the writer
            # still holds for it is unspecified; only "nothing is lost" is checked from here on
            got = self.sut(self.writer.open, target, mode)
            if got[0] == 'ok':
                self.handles[hid] = (got[1], None, 'b' in mode)
            return
        # the model resolves the same way the statement implies: by location
        self.handle_modes[hid] = mode
        expected = self.model.open(rel, mode)
        got = self.sut(self.writer.open, target, mode)
        binary = 'b' in mode
        self.events.append(['open', hid, rel, mode, expected[0], got[0]])
        if expected[0] == 'raise':
            if got[0] != 'raise':
                try:
                    got[1].close()
                except Exception:
                    pass
                raise Violation('open-should-fail', expected=expected[1].__name__, actual='returned a handle',
                                detail='open(%r, %r)' % (rel, mode))
            return
        if got[0] == 'raise':
            if expected[0] == 'handle':
                expected[1].close()
            raise Violation('open-failed', expected='handle', actual=repr(got[1]), detail='open(%r, %r)' % (rel, mode))
        if expected[0] == 'plain':
            data = got[1].read()
            got[1].close()
            data = data if isinstance(data, bytes) else data.encode()
            if data != expected[1]:
                raise Violation('plain-read', expected=expected[1][:60], actual=data[:60], detail=rel)
            return
        self.handles[hid] = (got[1], expected[1], binary)
        self.handle_paths[hid] = rel
        if sum(1 for h in self.handles if self.handle_paths.get(h) == rel) > 1:
            # several handles open on one pending path at the same time: whose write wins is the
            # business of the OS file-position rules, not of the statement (DESIGN.md section 7)
            entry = self.model.entry(rel)
            if entry is not None:
                entry['weak'] = True

    def make_system(self, seed):
        import numpy as np
        import vermouth
        from vermouth.molecule import Molecule
        rng = core.sub_rng(seed, 'system')
        system = vermouth.System()
        for m in range(rng.randint(1, 2)):
            mol = Molecule(nrexcl=1)
            mol.meta['moltype'] = 'mol_%d' % m
            for a in range(rng.randint(1, 4)):
                mol.add_node(a, atomname='A%d' % a, resname=rng.choice(['ALA', 'GLY']), resid=1 + a // 2, chain='A',
                             atype='P1', charge_group=a + 1, atomid=a + 1,
                             position=np.array([rng.uniform(0, 5), rng.uniform(0, 5), rng.uniform(0, 5)]))
            if len(mol) > 1:
                mol.add_edge(0, 1)
                mol.add_interaction('bonds', (0, 1), ['1', '0.47', '1250'])
            system.molecules.append(mol)
        return system

    def op_writer(self, kind, rel, seed, relative):
        """A real library writer writes through the deferred writer (it must defer like a raw handle)."""
        import io
        import vermouth
        from vermouth.gmx.gro import write_gro
        from vermouth.gmx.itp import write_molecule_itp
        if rel in self.model.tainted:
            return
        if any(self.handle_paths.get(h) == rel for h in self.handles):
            # a raw handle is still open on this path: concurrent handles are outside the statement (section 7)
            return
        target = os.path.join(self.root, rel)
        if relative:
            target = os.path.relpath(target, self.cwd)
        system = self.make_system(seed)
        scratch = os.path.join(self.shadow, 'writer-out')
        if kind == 'pdb':
            vermouth.pdb.write_pdb(system, scratch, defer_writing=False)
            got = self.sut(vermouth.pdb.write_pdb, system, target, defer_writing=True)
        elif kind == 'gro':
            write_gro(system, scratch, defer_writing=False)
            got = self.sut(write_gro, system, target, defer_writing=True)
        else:
            buf = io.StringIO()
            write_molecule_itp(system.molecules[0], buf, header=['vsim'])
            with open(scratch, 'w') as handle:
                handle.write(buf.getvalue())

            def write_itp():
                with self.fw.deferred_open(target, 'w') as handle:
                    write_molecule_itp(system.molecules[0], handle, header=['vsim'])
            got = self.sut(write_itp)
        with open(scratch) as handle:
            text = handle.read()
        expected = self.model.open(rel, 'w')
        self.events.append(['writer', kind, rel, got[0]])
        if got[0] == 'raise':
            if expected[0] == 'handle':
                expected[1].close()
            raise Violation('writer-failed', expected='%s written' % kind, actual=repr(got[1]))
        expected[1].write(text)
        expected[1].close()
        self.stats.probes['real_writer_' + kind] += 1

    def op_handle(self, op, hid, *args):
        if hid not in self.handles:
            return
        real, mod, binary = self.handles[hid]

        def model(func, *a):
            if mod is None:
                return None
            try:
                return ('ok', func(*a))
            except Exception as err:
                return ('raise', err)
        if op == 'write':
            tag, size = args
            data = payload(tag, size, binary, spice=True)
            r1 = self.sut(real.write, data)
            r2 = model(mod.write, data) if mod is not None else None
            if r2 is not None and r1[0] != r2[0]:
                raise Violation('handle-write', expected=repr(r2)[:80], actual=repr(r1)[:80])
        elif op == 'read':
            r1 = self.sut(real.read)
            r2 = model(mod.read) if mod is not None else None
            entry = self.model.entry(self.handle_paths.get(hid))
            if entry is not None and entry.get('weak'):
                return
            if r2 is not None and (r1[0] != r2[0] or (r1[0] == 'ok' and r1[1] != r2[1])):
                raise Violation('handle-read', expected=repr(r2[1])[:80], actual=repr(r1[1])[:80])
        elif op == 'seek':
            if self.handle_modes.get(hid, '').startswith('a'):
                # mkstemp descriptors are not O_APPEND: seeking an append handle is outside the
                # statement (DESIGN.md section 7); the op is skipped, not compared
                return
            self.sut(real.seek, args[0])
            if mod is not None:
                model(mod.seek, args[0])
        elif op == 'close':
            self.sut(real.close)
            if mod is not None:
                mod.close()
            del self.handles[hid]

    def close_all(self):
        for hid in sorted(self.handles):
            real, mod, _ = self.handles[hid]
            self.sut(real.close)
            if mod is not None:
                mod.close()
        self.handles = {}

    def op_discard(self):
        self.close_all()
        self.sut(self.writer.close)
        self.model.discard()
        left = os.listdir(self.tmpdir)
        if left and not self.error_seen:
            raise Violation('discard-leaves-temp', expected=[], actual=sorted(left))

    def op_finalise(self):
        self.close_all()
        self.check_i1('before finalise')
        ordinal = self.n_finalise
        self.n_finalise += 1
        plan = self.plans.get(ordinal, {})
        start = dict(self.model.fs)
        entries = [dict(e, new=self.model.content(e)) for e in self.model.pending]
        self.fs.arm(plan=plan, xdev=self.sc['schedule'].get('xdev', False), finalising=True)
        os.chdir(self.cwd)
        outcome = 'done'
        err = None
        try:
            self.writer.write()
        except SimCrash:
            outcome = 'crash'
        except OSError as exc:
            outcome = 'error'
            err = exc
        except Exception as exc:
            outcome = 'exception'
            err = exc
        finally:
            self.fs.disarm()
            os.chdir(self.base)
        self.finalise_logs.append({'log': list(self.fs.log), 'entries': [
            {'dest': e['dest'], 'mode0': e['mode0'], 'len': len(e['new'])} for e in entries]})
        self.events.append(['finalise', ordinal, outcome, self.fs.n])
        for k, v in self.fs.fired.items():
            self.stats.faults[k] += v
        self.fs.fired.clear()
        tree = self.tree()
        self.stats.states.add(core.digest(sorted((k, core.digest(v)) for k, v in tree.items())))
        injected = bool(plan)
        if outcome == 'done':
            self.model.finalise()
            self.compare_final(tree, start, entries, strict=True)
            left = os.listdir(self.tmpdir)
            if left and not injected and not self.error_seen:
                raise Violation('I2-temp-left', expected=[], actual=sorted(left))
            return
        if outcome in ('error', 'exception') and not injected:
            raise Violation('I2-finalise-raised', expected='finalisation completes', actual=repr(err),
                            detail='no fault was injected')
        # interrupted: statement-level I3
        self.check_i3(tree, start, entries, outcome)
        if outcome == 'crash':
            self.crashed = True
            raise StopIteration
        # I/O error: the process survives.  The statement promises nothing about what a retry
        # does with the destinations of an interrupted finalisation, so all of them (and their
        # backup names) are compared weakly from here on: nothing pre-existing may be lost.
        self.error_seen = True
        for e in entries:
            self.model.tainted.add(e['dest'])
        self.model.pending = []
        self.model.fs = dict(tree)

    def compare_final(self, tree, start, entries, strict):
        """I2: fault-free finalisation gives exactly the model's tree."""
        weak = set(e['dest'] for e in entries if e['weak']) | set(self.model.tainted)
        for dest in list(weak):
            weak.update(k for k in set(tree) | set(self.model.fs) if backup_names_of(dest)(k))
        keys = set(tree) | set(self.model.fs)
        bad = sorted(k for k in keys if k not in weak and tree.get(k) != self.model.fs.get(k))
        if bad:
            k = bad[0]
            e = next((e for e in entries if e['dest'] == k), None)
            isb = next((e for e in entries if backup_names_of(e['dest'])(k)), None)
            if e is not None:
                inv = 'I2-content-%s' % WriterModel.category(e['mode0'])
            elif isb is not None:
                inv = 'I2-backup'
            elif k not in start:
                inv = 'I2-stray-file'
            else:
                inv = 'I2-bystander'
            raise Violation(inv, expected=short_tree({x: self.model.fs[x] for x in bad if x in self.model.fs}),
                            actual=short_tree({x: tree[x] for x in bad if x in tree}),
                            detail='after a completed finalisation: %s' % bad)
        if weak:
            # weak destinations: at least nothing may be lost
            self.check_i3(tree, start, entries, 'done-weak')
            # keep following reality for them
            for k in list(keys):
                if k in weak:
                    if k in tree:
                        self.model.fs[k] = tree[k]
                    else:
                        self.model.fs.pop(k, None)

    def check_i3(self, tree, start, entries, outcome):
        """Every file that existed when finalisation started still exists intact under its own
        or a backup name (append destinations: old content is a prefix)."""
        append_dests = set(e['dest'] for e in entries if WriterModel.category(e['mode0']) == 'append')
        dests = set(e['dest'] for e in entries) | set(self.model.tainted)
        append_dests |= set(self.model.tainted)
        for rel, old in sorted(start.items()):
            if tree.get(rel) == old:
                continue
            if rel not in dests and not any(backup_names_of(t)(rel) for t in self.model.tainted):
                raise Violation('I3-bystander-changed', expected=short_tree({rel: old}),
                                actual=short_tree({rel: tree[rel]}) if rel in tree else 'missing',
                                detail='%s: a file that is not a destination changed during finalisation' % outcome)
            if rel in append_dests and rel in tree and tree[rel].startswith(old):
                continue
            isb = backup_names_of(rel)
            if any(isb(k) and v == old for k, v in tree.items()):
                continue
            raise Violation('I3-preexisting-lost', expected=short_tree({rel: old}),
                            actual=short_tree({k: v for k, v in tree.items() if k == rel or isb(k)}),
                            detail='%s: pre-existing file neither intact in place nor under a backup name' % outcome)

    # ---------------------------------------------------------------- driver
    def run(self):
        self.setup()
        try:
            for op in self.sc['ops']:
                kind = op[0]
                if kind == 'open':
                    self.op_open(op[1], op[2], op[3], bool(op[4]) if len(op) > 4 else False)
                elif kind in ('write', 'read', 'seek', 'close'):
                    self.op_handle(kind, *op[1:])
                elif kind == 'writer':
                    self.op_writer(op[1], op[2], op[3], bool(op[4]))
                elif kind == 'chdir':
                    self.cwd = os.path.join(self.root, op[1])
                elif kind == 'finalise':
                    self.op_finalise()
                elif kind == 'discard':
                    self.op_discard()
                else:
                    raise HarnessError('unknown op %r' % (op,))
                if kind not in ('finalise',):
                    self.check_i1('after %s' % kind)
            if self.error_seen and not self.crashed:
                # retry after an I/O error: a later finalisation must still lose nothing (I4)
                self.op_finalise()
            if not self.crashed:
                self.close_all()
                self.check_i1('end of history')
        except StopIteration:
            pass
        finally:
            try:
                self.final_tree = self.tree()
            except Exception:
                self.final_tree = None
            for real, mod, _ in self.handles.values():
                for h in (real, mod):
                    try:
                        h.close()
                    except Exception:
                        pass
            self.writer.open_files.clear()
            faultfs._State.fs = None


class C07Writer(core.Check):
    state_measure = 'distinct digests of the directory tree observed after a completed or interrupted finalisation'
    id = 'C07F'
    level = 'fault_enumeration'
    world = 'F'
    chunk = 25
    run_timeout = 60
    real_components = ['vermouth.file_writer.DeferredFileWriter (singleton, real code)', 'shutil.move/copy2 (stdlib)',
                       'kernel file system below a private scratch directory']
    stub_components = ['crash = exception raised from an audit hook immediately before a file-system call '
                       '(process death, not power loss: no model of un-synced page cache)',
                       'torn write / partial copy = wrapper around shutil.copyfile and file_writer._open']
    assumptions = ['CPython audit events cover every file-system mutation the writer performs',
                   'builtin open() on a shadow file is the reference for handle semantics',
                   'thread schedules are not simulated (martinize2 is single threaded)']
    rule = ('scenario = pre-existing files (incl. backups with gaps) + 1-8 deferred open/write/read/seek/close/chdir ops '
            '+ finalise/discard rounds, drawn from sub_rng(VERIF_SEED, C07F, run); each scenario is executed fault-free and '
            'then once per crash point of every finalisation (complete per history), per torn-write cut and per sampled '
            'I/O-error placement. distinct = distinct scenario digest; non-trivial = at least one finalisation that '
            'touched a pre-existing file or fired at least one fault')
    probes_expected = ['real_writer_pdb', 'real_writer_gro', 'real_writer_itp', 'xdev_copy_path', 'backup_gap_chosen', 'append_torn_mid_buffer', 'retry_after_error',
                       'crash_between_backup_and_move', 'r_plus_existing', 'reopen_pending', 'relative_after_chdir',
                       'second_round', 'restart_after_crash']

    def budgets(self, tier):
        if tier == 'thorough':
            return {'runs': 100000, 'determinism': 200, 'wall': 3400}
        return {'runs': 4000, 'determinism': 60, 'wall': 1800}

    def worker_init(self, tier):
        faultfs.install()
        faultfs.deterministic_tempnames()
        self.base = os.path.join(core.scratch_base(), 'vsim-F-%d' % os.getpid())
        import atexit
        atexit.register(shutil.rmtree, self.base, True)

    # ------------------------------------------------------------ generation
    def generate(self, rng, run_index, tier):
        big = tier == 'thorough'
        dirs = ['d0'] if rng.random() < 0.6 else ['d0', 'd1']
        names = rng.sample(NAMES, rng.randint(1, 4))
        paths = [os.path.join(rng.choice(dirs), n) for n in names]
        paths = sorted(set(paths))
        pre = []
        nonce = 0
        for p in paths:
            d, n = os.path.split(p)
            r = rng.random()
            present = r < 0.65
            if present:
                nonce += 1
                size = rng.choice([0, 5, 40, 300, 9000]) if rng.random() < 0.3 else 24
                pre.append([p, core.b64(payload('OLD%d:%s' % (nonce, n), max(size, 0), True))])
            pattern = rng.choice([[], [], [1], [1, 2], [2], [1, 3], [1, 2, 3]]) if (present or rng.random() < 0.2) else []
            for idx in pattern:
                nonce += 1
                pre.append([os.path.join(d, '#%s.%d#' % (n, idx)), core.b64(payload('BK%d:%s' % (nonce, n), 20, True))])
        if rng.random() < 0.5:
            pre.append([os.path.join(dirs[0], 'keep.dat'), core.b64(b'BYSTANDER')])
        ops = []
        hid = 0
        open_handles = {}
        tagn = 0
        rounds = 1 if rng.random() < 0.7 else 2
        pending = set()
        for rnd in range(rounds):
            nops = rng.randint(1, 8)
            for _ in range(nops):
                r = rng.random()
                if r < 0.40 or not open_handles:
                    p = rng.choice(paths)
                    if p in pending and rng.random() < 0.5:
                        mode = rng.choice(['r', 'a', 'w', 'r+', 'rb', 'ab'])
                    else:
                        mode = rng.choice(TEXT_MODES + BIN_MODES + ('w', 'a', 'w', 'a') + WEAK_MODES[:1] * (rng.random() < 0.15)
                                          + WEAK_MODES[1:] * (rng.random() < 0.05))
                    hid += 1
                    ops.append(['open', hid, p, mode, int(rng.random() < 0.3)])
                    open_handles[hid] = mode
                    if any(c in mode for c in 'wa+'):
                        pending.add(p)
                elif r < 0.47:
                    p = rng.choice(paths)
                    ops.append(['writer', rng.choice(['pdb', 'gro', 'itp']), p, rng.randrange(1 << 20), int(rng.random() < 0.3)])
                    pending.add(p)
                elif r < 0.75:
                    h = rng.choice(sorted(open_handles))
                    tagn += 1
                    sizes = [0, 1, 17, 100, 8191, 8192, 8193, 20000]
                    if big:
                        sizes += [65536, 262144]
                    size = rng.choice(sizes) if rng.random() < 0.4 else rng.randint(1, 200)
                    ops.append(['write', h, 'N%d' % tagn, size])
                elif r < 0.80:
                    ops.append(['read', rng.choice(sorted(open_handles))])
                elif r < 0.85:
                    ops.append(['seek', rng.choice(sorted(open_handles)), rng.choice([0, 3, 10])])
                elif r < 0.95:
                    h = rng.choice(sorted(open_handles))
                    ops.append(['close', h])
                    del open_handles[h]
                else:
                    ops.append(['chdir', rng.choice(dirs)])
            for h in sorted(open_handles):
                ops.append(['close', h])
            open_handles = {}
            t = rng.random()
            if t < 0.70:
                ops.append(['finalise'])
            elif t < 0.82:
                ops.append(['discard'])
            elif t < 0.93:
                ops += [['finalise'], ['finalise']]
            else:
                ops += [['discard'], ['finalise']]
            pending = set()
        return {'dirs': dirs, 'pre': pre, 'ops': ops,
                'schedule': {'xdev': rng.random() < 0.35},
                'faults': {'mode': 'all', 'seed': rng.randrange(1 << 30), 'errors': 4 if not big else 8}}

    def describe(self, scenario):
        return {'dirs': scenario['dirs'], 'pre': [[p, core.unb64(d)[:20].decode('latin1')] for p, d in scenario['pre']],
                'ops': scenario['ops'], 'schedule': scenario['schedule'], 'faults': scenario['faults']}

    def simplifications(self, scenario):
        sc = scenario
        if sc['schedule'].get('xdev'):
            yield dict(sc, schedule={'xdev': False})
        for i in range(len(sc['pre'])):
            yield dict(sc, pre=sc['pre'][:i] + sc['pre'][i + 1:])
        for i, op in enumerate(sc['ops']):
            if op[0] == 'write' and op[3] > 3:
                new = list(op)
                new[3] = 3
                yield dict(sc, ops=sc['ops'][:i] + [new] + sc['ops'][i + 1:])
            if op[0] == 'open' and len(op) > 4 and op[4]:
                new = list(op)
                new[4] = 0
                yield dict(sc, ops=sc['ops'][:i] + [new] + sc['ops'][i + 1:])
        if len(sc['dirs']) > 1:
            def flat(p):
                return os.path.join('d0', os.path.basename(p))
            yield dict(sc, dirs=['d0'], pre=[[flat(p), d] for p, d in sc['pre']],
                       ops=[[o[0], o[1], flat(o[2])] + list(o[3:]) if o[0] == 'open' else (['chdir', 'd0'] if o[0] == 'chdir' else o)
                            for o in sc['ops']])

    # ------------------------------------------------------------ execution
    def one(self, scenario, plans, stats):
        ex = Execution(scenario, plans, stats, self.base)
        stats.execs += 1
        try:
            ex.run()
        except Violation as v:
            return ex, v
        return ex, None

    def execute(self, scenario):
        stats = core.Stats()
        events = []
        ex, v = self.one(scenario, {}, stats)
        events = list(ex.events)
        run_digest = core.digest([ex.events, [fl['log'] for fl in ex.finalise_logs]])

        def fail(v, plans, ex):
            return result(VIOLATION, invariant=v.invariant, signature=v.signature, expected=v.expected, actual=v.actual,
                          detail={'what': v.detail, 'fault_plan': {str(k): plans[k] for k in plans},
                                  'fs_events': [fl['log'] for fl in ex.finalise_logs][-2:]},
                          events=ex.events, stats=stats.to_json(), run_digest=run_digest)
        if v is not None:
            stats.nontrivial = True
            return fail(v, {}, ex)
        self.probe_fault_free(scenario, ex, stats)
        mode = scenario['faults'].get('mode')
        if mode == 'none':
            return result(PASS, events=events, stats=stats.to_json(), run_digest=run_digest)
        plans = self.fault_plans(scenario, ex)
        digs = []
        for plans_one in plans:
            ex2, v2 = self.one(scenario, plans_one, stats)
            self.probe_plan(plans_one, ex, stats)
            digs.append(core.digest(ex2.events))
            if ex2.error_seen and ex2.n_finalise > 1:
                stats.probes['retry_after_error'] += 1
            if v2 is not None:
                stats.nontrivial = True
                return fail(v2, plans_one, ex2)
            if ex2.crashed and ex2.final_tree is not None and len(digs) % 3 == 0:
                # restart: a new process runs the whole history again, fault-free, on the tree the crash left behind;
                # whatever existed before the first attempt must still exist intact under its own or a backup name
                ex3 = Execution(scenario, {}, stats, self.base, pre_tree=ex2.final_tree)
                stats.execs += 1
                stats.probes['restart_after_crash'] += 1
                try:
                    ex3.run()
                    v3 = None
                except Violation as v:
                    v3 = Violation('restart:' + v.invariant, v.expected, v.actual, 'restart:' + v.signature, v.detail)
                if v3 is None and ex3.final_tree is not None:
                    v3 = self.originals_survive(scenario, ex3.final_tree)
                if v3 is not None:
                    stats.nontrivial = True
                    return fail(v3, plans_one, ex3)
        run_digest = core.digest([run_digest, digs])
        if plans:
            stats.nontrivial = True
        return result(PASS, events=events, stats=stats.to_json(), run_digest=run_digest)

    @staticmethod
    def originals_survive(scenario, tree):
        append_modes = {}
        for op in scenario['ops']:
            if op[0] == 'open':
                append_modes.setdefault(op[2], []).append(op[3])
        for rel, data in scenario['pre']:
            old = core.unb64(data)
            if tree.get(rel) == old:
                continue
            isb = backup_names_of(rel)
            if any(isb(k) and v == old for k, v in tree.items()):
                continue
            if any('a' in m for m in append_modes.get(rel, [])):
                # an append destination keeps the old bytes as a prefix, in place or in the backup made by a later round
                if (rel in tree and tree[rel].startswith(old)) or any(isb(k) and v.startswith(old) for k, v in tree.items()):
                    continue
            return Violation('restart-loses-original', expected=short_tree({rel: old}),
                             actual=short_tree({k: v for k, v in tree.items() if k == rel or isb(k)}),
                             detail='after a crash and a fault-free re-run of the history the original file is gone')
        return None

    @staticmethod
    def probe_plan(plans_one, ex, stats):
        for ordinal, plan in plans_one.items():
            log = [e for e in ex.finalise_logs[ordinal]['log'] if e[0] > 0]
            byidx = {e[0]: e for e in log}
            for idx, fault in plan.items():
                e = byidx.get(idx)
                if e is None:
                    continue
                if fault[0] == 'torn' and e[1] == 'write' and fault[1] >= 4096:
                    stats.probes['append_torn_mid_buffer'] += 1
                prev = byidx.get(idx - 1)
                if (fault[0] == 'crash' and e[1] == 'rename' and prev is not None and prev[1] == 'rename'
                        and BACKUP_RE.match(os.path.basename(prev[3])) and e[2].startswith('tmpd')):
                    stats.probes['crash_between_backup_and_move'] += 1

    def probe_fault_free(self, scenario, ex, stats):
        pre_paths = set(p for p, _ in scenario['pre'])
        for fl in ex.finalise_logs:
            names = [e[1] for e in fl['log']]
            if any(e[1] == 'shutil.copyfile' for e in fl['log']):
                stats.probes['xdev_copy_path'] += 1
            for e in fl['log']:
                if e[1] == 'rename' and len(e) > 3:
                    m = BACKUP_RE.match(os.path.basename(e[3]))
                    if m:
                        stats.nontrivial = True
                        stats.probes['backup_made'] += 1
                        d = os.path.dirname(e[3])
                        higher = [p for p in pre_paths if os.path.dirname(p) == d and BACKUP_RE.match(os.path.basename(p))
                                  and BACKUP_RE.match(os.path.basename(p)).group('name') == m.group('name')
                                  and int(BACKUP_RE.match(os.path.basename(p)).group('idx')) > int(m.group('idx'))]
                        if higher:
                            stats.probes['backup_gap_chosen'] += 1
            if 'write' in names:
                stats.probes['append_finalised'] += 1
        if ex.n_finalise > 1:
            stats.probes['second_round'] += 1
        for op in scenario['ops']:
            if op[0] == 'open' and op[3].startswith('r+') and op[2] in pre_paths:
                stats.probes['r_plus_existing'] += 1
            if op[0] == 'open' and len(op) > 4 and op[4]:
                stats.probes['relative_after_chdir'] += 1
        seen = set()
        for op in scenario['ops']:
            if op[0] == 'open':
                if op[2] in seen:
                    stats.probes['reopen_pending'] += 1
                if any(c in op[3] for c in 'wa+'):
                    seen.add(op[2])
            elif op[0] in ('finalise', 'discard'):
                seen = set()

    def fault_plans(self, scenario, ex):
        """All crash points (complete), torn variants and sampled error placements."""
        plans = []
        rng = core.sub_rng(scenario['faults'].get('seed', 0), 'faults')
        for ordinal, fl in enumerate(ex.finalise_logs):
            log = [e for e in fl['log'] if e[0] > 0]
            lens = {e['dest']: e['len'] for e in fl['entries']}
            composite_next = set()
            prev = None
            for e in fl['log']:
                if e[0] == 0 and e[1] == 'shutil.copyfile':
                    prev = 'copy'
                elif e[0] > 0:
                    if prev == 'copy' and e[1] == 'open':
                        composite_next.add(e[0])
                    prev = None
            for e in log:
                plans.append({ordinal: {e[0]: ['crash']}})
            for e in log:
                idx, name = e[0], e[1]
                if name == 'write' or idx in composite_next:
                    size = e[3] if name == 'write' else lens.get(e[2], 0)
                    cuts = sorted(set(c for c in [0, 1, size // 2, size - 1, 8192, 4096] if 0 <= c < max(size, 1)))
                    if len(cuts) > 3:
                        cuts = sorted(rng.sample(cuts, 3))
                    for c in cuts:
                        plans.append({ordinal: {idx: ['torn', c]}})
            # sampled I/O errors (process survives; a retry finalise is part of many histories)
            nerr = scenario['faults'].get('errors', 4)
            cand = []
            for e in log:
                idx, name = e[0], e[1]
                if name == 'write' or idx in composite_next:
                    size = e[3] if name == 'write' else lens.get(e[2], 0)
                    cand.append({idx: ['partial_error', rng.randrange(0, max(size, 1)), rng.choice(['ENOSPC', 'EIO'])]})
                if name == 'rename':
                    cand.append({idx: ['error', rng.choice(['EACCES', 'EIO', 'ENOSPC', 'EROFS'])]})
                elif name == 'open':
                    cand.append({idx: ['error', rng.choice(['EACCES', 'ENOSPC', 'EROFS'])]})
                elif name in ('remove', 'unlink'):
                    cand.append({idx: ['error', rng.choice(['EIO', 'EACCES'])]})
            rng.shuffle(cand)
            for c in cand[:nerr]:
                plans.append({ordinal: c})
            if len(cand) >= 2 and nerr:
                a, b = rng.sample(cand, 2)
                both = dict(a)
                both.update(b)
                plans.append({ordinal: both})
        return plans


CHECK = core.register(C07Writer())

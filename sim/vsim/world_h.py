"""World H - ISMAGS under simulated hash schedules (C06).

System under test: the real ``vermouth.ismags.ISMAGS``.  ISMAGS is written on sets of node
keys; the order in which it visits candidates, breaks ties and yields results depends on
set iteration order, i.e. on the hashes of the node keys.  The simulator owns that order:

* SimKey mode (in process, replayable without a new interpreter): node keys are ``SimKey``
  objects whose ``__hash__`` is drawn from the run PRNG (wide range, a narrow range that
  forces probe collisions, or equal to the rank) and whose ordering is an independent seeded
  rank ("any node numbering");
* string mode (a sample of runs): real string keys in a fresh interpreter per PYTHONHASHSEED.

Oracle: brute-force enumeration (backtracking) of induced subgraph isomorphisms,
automorphism orbits and maximum common induced subgraphs on integer-labelled copies.
"""
import itertools
import json
import os
import subprocess
import sys

from . import core
from .core import VIOLATION, PASS, result


class SimKey:
    __slots__ = ('rank', 'h', 'ident')

    def __init__(self, rank, h, ident):
        self.rank = rank
        self.h = h
        self.ident = ident

    def __hash__(self):
        return self.h

    def __eq__(self, other):
        return isinstance(other, SimKey) and other.rank == self.rank

    def __lt__(self, other):
        return self.rank < other.rank

    def __le__(self, other):
        return self.rank <= other.rank

    def __gt__(self, other):
        return self.rank > other.rank

    def __ge__(self, other):
        return self.rank >= other.rank

    def __repr__(self):
        return 'K%s' % (self.ident,)


# ---------------------------------------------------------------------------
# brute force oracle on plain data: graph = {'n': int, 'colors': [..], 'edges': {(u, v): color}}

def make_adj(g):
    adj = {}
    for (u, v), c in g['edges'].items():
        adj[(u, v)] = c
        adj[(v, u)] = c
    return adj


def isos(G, S, snodes=None):
    """All injective maps s -> g (as tuples aligned with snodes) that are induced-subgraph isomorphisms
    respecting node and edge colours."""
    if snodes is None:
        snodes = list(range(S['n']))
    gadj, sadj = make_adj(G), make_adj(S)
    out = []
    used = set()
    cur = []

    def rec(i):
        if i == len(snodes):
            out.append(tuple(cur))
            return
        s = snodes[i]
        for g in range(G['n']):
            if g in used or G['colors'][g] != S['colors'][s]:
                continue
            ok = True
            for j in range(i):
                es = sadj.get((s, snodes[j]))
                eg = gadj.get((g, cur[j]))
                if (es is None) != (eg is None) or (es is not None and es != eg):
                    ok = False
                    break
            if ok:
                used.add(g)
                cur.append(g)
                rec(i + 1)
                cur.pop()
                used.discard(g)
    rec(0)
    return out


def automorphisms(S):
    return isos(S, S)


def max_common(G, S):
    """(k, set of frozenset((g, s))) for the maximum common induced subgraphs."""
    for k in range(min(G['n'], S['n']), 0, -1):
        found = set()
        for T in itertools.combinations(range(S['n']), k):
            for m in isos(G, S, list(T)):
                found.add(frozenset(zip(m, T)))
        if found:
            return k, found
    return 0, set()


# ---------------------------------------------------------------------------

def build_nx(g, keys):
    import networkx as nx
    graph = nx.Graph()
    for i in range(g['n']):
        graph.add_node(keys[i], c=g['colors'][i])
    for (u, v), c in g['edges'].items():
        graph.add_edge(keys[u], keys[v], c=c)
    return graph


def node_match(a, b):
    return a['c'] == b['c']


def edge_match(a, b):
    return a['c'] == b['c']


def run_ismags(G, S, gkeys, skeys, ginv, sinv, calls=None, shared=False, cache=None):
    """Run every API mode; return dict mode -> list of frozenset((g, s)) in yield order (int labels).

    ``calls`` is the order of the four API calls; with ``shared`` they are all made on ONE matcher object (the history
    of calls on an instance is part of the schedule: the object caches partitions, colours and candidates), otherwise
    every call gets a fresh object.  ``cache`` is the symmetry cache handed to the constructor (as repair_graph does)."""
    from vermouth.ismags import ISMAGS
    out = {}
    graph = build_nx(G, gkeys)
    sub = build_nx(S, skeys)
    calls = calls or ['iso:0', 'lcs:0', 'iso:1', 'lcs:1']

    def conv(mapping):
        return frozenset((ginv[g], sinv[s]) for g, s in mapping.items())
    instance = ISMAGS(graph, sub, node_match=node_match, edge_match=edge_match, cache=cache) if shared else None
    for call in calls:
        kind, sym = call.split(':')
        sym = bool(int(sym))
        ism = instance if shared else ISMAGS(graph, sub, node_match=node_match, edge_match=edge_match, cache=cache)
        if kind == 'iso':
            out[call] = [conv(m) for m in ism.find_isomorphisms(symmetry=sym)]
        else:
            out[call] = [conv(m) for m in ism.largest_common_subgraph(symmetry=sym)]
    return out


def evaluate(G, S, got, ref):
    """Compare one schedule's results with the brute-force reference. -> (invariant, expected, actual) or None"""
    ref_isos, auts, kmax, ref_common = ref
    ref_set = set(frozenset(zip(m, range(S['n']))) for m in ref_isos)
    # without symmetry reduction: every isomorphism exactly once
    g0 = got['iso:0']
    if len(g0) != len(set(g0)):
        return ('iso-duplicate', 'each isomorphism once', {'yielded': len(g0), 'distinct': len(set(g0))})
    bad = [m for m in g0 if m not in ref_set]
    if bad:
        return ('iso-unsound', 'only genuine induced isomorphisms', sorted(map(sorted, bad))[:2])
    if set(g0) != ref_set:
        return ('iso-incomplete', '%d isomorphisms' % len(ref_set), '%d yielded' % len(set(g0)))
    # with symmetry reduction: exactly one representative per orbit under Aut(pattern)
    g1 = got['iso:1']
    bad = [m for m in g1 if m not in ref_set]
    if bad:
        return ('iso-sym-unsound', 'only genuine induced isomorphisms', sorted(map(sorted, bad))[:2])
    classes = {}
    for m in ref_set:
        if m in classes:
            continue                      # already placed by the orbit of an earlier member
        d = {s: g for g, s in m}
        orbit = frozenset(frozenset((d[a[s]], s) for s in d) for a in auts)
        for member in orbit:
            classes[member] = orbit
    hit = {}
    for m in g1:
        hit[classes[m]] = hit.get(classes[m], 0) + 1
    norbits = len(set(classes.values()))
    if any(v != 1 for v in hit.values()) or len(hit) != norbits:
        return ('iso-sym-classes', 'one representative for each of %d classes' % norbits,
                {'yielded': len(g1), 'classes_hit': len(hit), 'multiplicities': sorted(hit.values())[-3:]})
    # largest common subgraph
    for sym in (0, 1):
        gl = got['lcs:%d' % sym]
        if kmax == 0:
            if any(len(m) for m in gl):
                return ('lcs-unsound', 'no common subgraph', sorted(map(sorted, gl))[:2])
            continue
        bad = [m for m in gl if len(m) != kmax or m not in ref_common]
        if bad:
            return ('lcs-unsound', 'only common induced subgraphs of size %d' % kmax, sorted(map(sorted, bad))[:2])
        covered = set()
        for m in gl:
            d = {s: g for g, s in m}
            for a in auts:
                covered.add(frozenset((d[s], a[s]) for s in d))
        missing = ref_common - covered
        if missing:
            return ('lcs-incomplete', 'every maximum common subgraph returned or symmetry-equivalent to a returned one',
                    {'missing': len(missing), 'of': len(ref_common), 'example': sorted(sorted(missing)[0]) if False else sorted(next(iter(missing)))})
    return None


STRING_SCRIPT = r'''
import sys, json
sys.path.insert(0, %(simpath)r)
from vsim import world_h
spec = json.loads(sys.stdin.read())
G = world_h.decode_graph(spec['G']); S = world_h.decode_graph(spec['S'])
gk = ['g' + n for n in spec['gnames']]; sk = ['s' + n for n in spec['snames']]
ginv = {k: i for i, k in enumerate(gk)}; sinv = {k: i for i, k in enumerate(sk)}
got = world_h.run_ismags(G, S, gk, sk, ginv, sinv)
print(json.dumps({k: [sorted(map(list, m)) for m in v] for k, v in got.items()}))
'''


def encode_graph(g):
    return {'n': g['n'], 'colors': g['colors'], 'edges': [[u, v, c] for (u, v), c in sorted(g['edges'].items())]}


def decode_graph(d):
    return {'n': d['n'], 'colors': list(d['colors']), 'edges': {(u, v): c for u, v, c in d['edges']}}


# ---------------------------------------------------------------------------
# generation

def gnp(rng, n, p):
    return {(u, v): 0 for u in range(n) for v in range(u + 1, n) if rng.random() < p}


def structured(rng, kind, n):
    edges = {}
    if kind == 'path':
        edges = {(i, i + 1): 0 for i in range(n - 1)}
    elif kind == 'cycle':
        edges = {(i, (i + 1) % n) if i < (i + 1) % n else ((i + 1) % n, i): 0 for i in range(n)} if n > 2 else {(0, 1): 0} if n == 2 else {}
    elif kind == 'star':
        edges = {(0, i): 0 for i in range(1, n)}
    elif kind == 'complete':
        edges = {(u, v): 0 for u in range(n) for v in range(u + 1, n)}
    elif kind == 'bipartite':
        a = max(1, n // 2)
        edges = {(u, v): 0 for u in range(a) for v in range(a, n)}
    elif kind == 'tree':
        edges = {((i - 1) // 2, i): 0 for i in range(1, n)}
    elif kind == 'twostars':
        # the shape quoted in ismags.py: two hubs, each with two two-atom arms
        base = [(0, 1), (0, 2), (2, 3), (0, 4), (4, 5), (1, 6), (6, 7), (1, 8), (8, 9)]
        edges = {e: 0 for e in base if e[0] < n and e[1] < n}
    elif kind == 'disconnected':
        half = n // 2
        edges = {(i, i + 1): 0 for i in range(half - 1)}
        edges.update({(i, i + 1): 0 for i in range(half, n - 1)})
    return edges


def gen_pair(rng, tier):
    big = tier == 'thorough'
    kind = rng.random()
    maxg = 9 if big else 8
    maxs = 7
    if kind < 0.08:
        # rings and their complements matched on themselves (plus a pendant node): dihedral symmetry under many numberings
        m = rng.choice([5, 6, 7, 7])
        S = {'n': m, 'edges': structured(rng, 'cycle', m)}
        G = {'n': m, 'edges': dict(S['edges'])}
        if rng.random() < 0.4 and m < maxg:
            G = {'n': m + 1, 'edges': dict(S['edges'])}
            G['edges'][(rng.randrange(m), m)] = 0
        if rng.random() < 0.35:
            for g in (G, S):
                g['edges'] = {(u, v): 0 for u in range(g['n']) for v in range(u + 1, g['n']) if (u, v) not in g['edges']}
    elif kind < 0.45:
        n = rng.randint(1, maxg)
        G = {'n': n, 'edges': gnp(rng, n, rng.choice([0.2, 0.4, 0.6, 0.9]))}
        if rng.random() < 0.5:
            m = rng.randint(1, min(n, maxs))
            S = {'n': m, 'edges': gnp(rng, m, rng.choice([0.3, 0.6, 1.0]))}
        else:
            m = rng.randint(1, min(n, maxs))
            nodes = rng.sample(range(n), m)
            idx = {v: i for i, v in enumerate(nodes)}
            S = {'n': m, 'edges': {tuple(sorted((idx[u], idx[v]))): c for (u, v), c in G['edges'].items() if u in idx and v in idx}}
    else:
        shapes = ['path', 'cycle', 'star', 'complete', 'bipartite', 'tree', 'twostars', 'disconnected']
        n = rng.randint(2, maxg + (1 if big else 0))
        kg = rng.choice(shapes)
        if kg == 'twostars':
            n = rng.choice([8, 10]) if big else 8
        if kg == 'complete':
            n = min(n, 6)
        G = {'n': n, 'edges': structured(rng, kg, n)}
        m = rng.randint(1, min(n, maxs))
        ks = rng.choice(shapes + [kg, kg])
        if ks == 'complete':
            m = min(m, 5)
        if ks == 'twostars':
            m = min(n, maxs)
        S = {'n': m, 'edges': structured(rng, ks, m)}
        r2 = rng.random()
        if r2 < 0.25 and G['n'] <= maxs:
            # the pattern is the graph itself: every symmetry of a highly symmetric shape must be handled
            S = {'n': G['n'], 'edges': dict(G['edges'])}
        if r2 < 0.4 and rng.random() < 0.4:
            # complements have the same symmetry but a very different edge structure
            for g in (G, S):
                g['edges'] = {(u, v): 0 for u in range(g['n']) for v in range(u + 1, g['n']) if (u, v) not in g['edges']}
        if rng.random() < 0.3:
            # perturb: add / remove one edge
            u, v = sorted(rng.sample(range(G['n']), 2)) if G['n'] > 1 else (0, 0)
            if u != v:
                if (u, v) in G['edges']:
                    del G['edges'][(u, v)]
                else:
                    G['edges'][(u, v)] = 0
    # keep the brute-force oracle tractable: dense, colourless pairs have factorially many isomorphisms
    def density(g):
        return len(g['edges']) / max(1, g['n'] * (g['n'] - 1) / 2)
    if S['n'] >= 6 and (density(S) > 0.8 or density(S) < 0.12) and (density(G) > 0.8 or density(G) < 0.12):
        S = {'n': 5, 'edges': {e: c for e, c in S['edges'].items() if e[0] < 5 and e[1] < 5}}
    ncol = rng.choice([1, 1, 1, 2, 3])
    ecol = rng.choice([1, 1, 2, 2, 3])
    for g in (G, S):
        g['colors'] = [rng.randrange(ncol) for _ in range(g['n'])]
        g['edges'] = {e: rng.randrange(ecol) for e in g['edges']}
    # keep matcher and oracle tractable: highly symmetric patterns (hundreds of automorphisms) or thousands of
    # isomorphisms make the largest-common-subgraph search of the matcher itself run for minutes
    while S['n'] > 2 and (len(automorphisms(S)) > 240 or count_isos(G, S, 3000) >= 3000):
        last = S['n'] - 1
        S = {'n': last, 'colors': S['colors'][:last], 'edges': {e: c for e, c in S['edges'].items() if e[0] < last and e[1] < last}}
    return G, S


def count_isos(G, S, cap):
    """Number of induced isomorphisms, counted up to ``cap``."""
    gadj, sadj = make_adj(G), make_adj(S)
    count = [0]
    used = set()
    cur = []
    m = S['n']

    def rec(i):
        if count[0] >= cap:
            return
        if i == m:
            count[0] += 1
            return
        for g in range(G['n']):
            if g in used or G['colors'][g] != S['colors'][i]:
                continue
            ok = True
            for j in range(i):
                es = sadj.get((i, j))
                eg = gadj.get((g, cur[j]))
                if (es is None) != (eg is None) or (es is not None and es != eg):
                    ok = False
                    break
            if ok:
                used.add(g)
                cur.append(g)
                rec(i + 1)
                cur.pop()
                used.discard(g)
    rec(0)
    return count[0]


class C06Check(core.Check):
    state_measure = 'distinct digests of the sequences yielded by the four API calls (per pair and schedule): a proxy for distinct set-iteration interleavings'
    id = 'C06'
    world = 'H'
    chunk = 10
    run_timeout = 60
    real_components = ['vermouth.ismags.ISMAGS (real)', 'networkx Graph as container']
    stub_components = ['node keys are SimKey objects: __hash__ drawn from the run PRNG, ordering by an independent seeded rank '
                       '(the set-iteration schedule); string-key mode runs real str keys in a fresh interpreter per PYTHONHASHSEED']
    assumptions = ['CPython set iteration order is a function of the element hashes and the insertion history',
                   'node and edge equality are colour equality (a transitive relation, as the statement requires)']
    rule = ('scenario = (graph <= 9 nodes, pattern <= 7 nodes: G(n,p), patterns cut out of the graph, paths, cycles, stars, complete, '
            'bipartite, trees, the two-hub shape quoted in ismags.py, disconnected graphs; 1-3 node colours, 1-2 edge colours) x K '
            'schedules (hash assignment wide / narrow-colliding / rank, node numbering permuted, order of the four API calls, calls on one shared matcher object or on fresh ones, shared symmetry cache). Every schedule is compared with '
            'brute-force enumeration; the result sets of all schedules of a pair must coincide. distinct = scenario digest; '
            'non-trivial = pattern with >= 2 nodes and at least one isomorphism or common subgraph of size >= 2')
    probes_expected = ['nontrivial_symmetry', 'lcs_smaller_than_pattern', 'order_differs_between_schedules', 'string_mode_pairs',
                       'narrow_hash_collisions', 'no_isomorphism', 'shared_instance_call_history', 'symmetry_cache_shared', 'cache_warmed_by_other_pattern']

    def budgets(self, tier):
        if tier == 'thorough':
            return {'runs': 120000, 'determinism': 100, 'wall': 3400}
        return {'runs': 2000, 'determinism': 20, 'wall': 1800}

    def generate(self, rng, run_index, tier):
        G, S = gen_pair(rng, tier)
        k = 12 if tier == 'thorough' else 6
        schedules = []
        for i in range(k):
            calls = ['iso:0', 'lcs:0', 'iso:1', 'lcs:1']
            rng.shuffle(calls)
            schedules.append({'hash': rng.choice(['wide', 'wide', 'narrow', 'rank', 'tiny']), 'seed': rng.randrange(1 << 30),
                              'calls': calls, 'shared': rng.random() < 0.5, 'cache': rng.random() < 0.4, 'decoy': rng.random() < 0.6})
        sc = {'G': encode_graph(G), 'S': encode_graph(S), 'schedules': schedules}
        if rng.random() < (0.04 if tier != 'thorough' else 0.02):
            sc['string_seeds'] = [rng.randrange(1 << 32) for _ in range(2)]
        return sc

    list_keys = ('schedules',)

    def simplifications(self, scenario):
        if scenario.get('string_seeds'):
            yield {k: v for k, v in scenario.items() if k != 'string_seeds'}
        for which in ('G', 'S'):
            g = scenario[which]
            for i in range(len(g['edges'])):
                yield dict(scenario, **{which: dict(g, edges=g['edges'][:i] + g['edges'][i + 1:])})
            if any(g['colors']):
                yield dict(scenario, **{which: dict(g, colors=[0] * g['n'])})
            if any(e[2] for e in g['edges']):
                yield dict(scenario, **{which: dict(g, edges=[[u, v, 0] for u, v, c in g['edges']])})

    def execute(self, scenario):
        stats = core.Stats()
        G, S = decode_graph(scenario['G']), decode_graph(scenario['S'])
        ref_isos = isos(G, S)
        auts = automorphisms(S)
        kmax, ref_common = max_common(G, S)
        ref = (ref_isos, auts, kmax, ref_common)
        if len(auts) > 1:
            stats.probes['nontrivial_symmetry'] += 1
        if 0 < kmax < S['n']:
            stats.probes['lcs_smaller_than_pattern'] += 1
        if not ref_isos:
            stats.probes['no_isomorphism'] += 1
        stats.nontrivial = S['n'] >= 2 and (bool(ref_isos) or kmax >= 2)
        orders = set()
        digests = []
        first_sets = None
        for sch in scenario['schedules']:
            rng = core.sub_rng(sch['seed'], 'schedule')
            n, m = G['n'], S['n']
            ranks = list(range(n + m))
            rng.shuffle(ranks)                   # node numbering: graph and pattern keys interleave arbitrarily
            if sch['hash'] == 'wide':
                hashes = [rng.randrange(1 << 61) for _ in range(n + m)]
            elif sch['hash'] == 'narrow':
                hashes = [rng.randrange(8) * 8 for _ in range(n + m)]
                stats.probes['narrow_hash_collisions'] += 1
            elif sch['hash'] == 'tiny':
                hashes = [rng.randrange(3) for _ in range(n + m)]
                stats.probes['narrow_hash_collisions'] += 1
            else:
                hashes = list(ranks)
            gkeys = [SimKey(ranks[i], hashes[i], 'g%d' % i) for i in range(n)]
            skeys = [SimKey(ranks[n + i], hashes[n + i], 's%d' % i) for i in range(m)]
            ginv = {k: i for i, k in enumerate(gkeys)}
            sinv = {k: i for i, k in enumerate(skeys)}
            stats.execs += 1
            try:
                # the symmetry cache is keyed by hash(): only meaningful with realistic (collision-free) key hashes
                cache = {} if (sch.get('cache') and sch['hash'] in ('wide', 'rank')) else None
                if sch.get('shared'):
                    stats.probes['shared_instance_call_history'] += 1
                if cache is not None:
                    stats.probes['symmetry_cache_shared'] += 1
                if cache is not None and sch.get('decoy'):
                    # the symmetry cache is shared between matcher objects for DIFFERENT patterns (repair_graph hands one
                    # cache to every residue): first match a decoy with the same nodes and edges but the edge / node
                    # colours placed differently, then the real pair with the same cache
                    drng = core.sub_rng(sch['seed'], 'decoy')
                    D = {'n': S['n'], 'colors': list(S['colors']), 'edges': dict(S['edges'])}
                    ecols = list(D['edges'].values())
                    drng.shuffle(ecols)
                    D['edges'] = dict(zip(D['edges'].keys(), ecols))
                    if drng.random() < 0.5:
                        ncols = list(D['colors'])
                        drng.shuffle(ncols)
                        D['colors'] = ncols
                    run_ismags(G, D, gkeys, skeys, ginv, sinv, calls=['iso:1', 'lcs:1'], shared=False, cache=cache)
                    stats.probes['cache_warmed_by_other_pattern'] += 1
                got = run_ismags(G, S, gkeys, skeys, ginv, sinv, calls=sch.get('calls'), shared=bool(sch.get('shared')), cache=cache)
            except Exception as err:
                import traceback
                return result(VIOLATION, invariant='matcher-raised', signature='matcher-raised:%s' % type(err).__name__,
                              expected='results', actual=repr(err),
                              detail={'schedule': sch, 'traceback': ''.join(traceback.format_exception(type(err), err, err.__traceback__))[-1200:]},
                              stats=stats.to_json(), run_digest=core.digest(['raise', repr(err)]))
            problem = evaluate(G, S, got, ref)
            seq = core.digest({k: [sorted(map(list, m)) for m in v] for k, v in got.items()})
            orders.add(seq)
            digests.append(seq)
            sets = {k: sorted(sorted(map(list, m)) for m in set(v)) for k, v in got.items() if k in ('iso:0', 'lcs:0')}
            if problem is None and first_sets is not None and sets != first_sets:
                problem = ('schedule-dependent-set', 'the same result set under every schedule', {'mode': [k for k in sets if sets[k] != first_sets[k]]})
            if first_sets is None:
                first_sets = sets
            if problem is not None:
                stats.nontrivial = True
                return result(VIOLATION, invariant=problem[0], signature=problem[0], expected=problem[1], actual=problem[2],
                              detail={'schedule': sch}, stats=stats.to_json(), run_digest=core.digest(digests))
        if len(orders) > 1:
            stats.probes['order_differs_between_schedules'] += 1
        stats.states.update(orders)
        if scenario.get('string_seeds'):
            stats.probes['string_mode_pairs'] += 1
            names_rng = core.sub_rng(scenario['string_seeds'][0], 'names')
            gnames = ['%03d' % v for v in names_rng.sample(range(1000), G['n'])]
            snames = ['%03d' % v for v in names_rng.sample(range(1000), S['n'])]
            outs = []
            for hs in scenario['string_seeds']:
                env = dict(os.environ, PYTHONHASHSEED=str(hs), PYTHONWARNINGS='ignore')
                if core.REPO != '/repo':
                    env['PYTHONPATH'] = core.REPO
                proc = subprocess.run(['/venv/bin/python', '-c', STRING_SCRIPT % {'simpath': os.path.join(core.VERIF_ROOT, 'sim')}],
                                      input=json.dumps({'G': scenario['G'], 'S': scenario['S'], 'gnames': gnames, 'snames': snames}),
                                      capture_output=True, text=True, env=env, timeout=100)
                stats.execs += 1
                if proc.returncode != 0:
                    return result(core.HARNESS_ERROR, invariant='string-mode', detail=proc.stderr[-1500:], stats=stats.to_json())
                raw = json.loads(proc.stdout)
                got = {k: [frozenset(tuple(p) for p in m) for m in v] for k, v in raw.items()}
                problem = evaluate(G, S, got, ref)
                if problem is not None:
                    return result(VIOLATION, invariant=problem[0], signature=problem[0], expected=problem[1], actual=problem[2],
                                  detail={'string_hash_seed': hs}, stats=stats.to_json(), run_digest=core.digest(digests))
                outs.append(proc.stdout)
            if len(set(outs)) > 1:
                stats.probes['string_order_differs_between_hash_seeds'] += 1
            digests.append(core.digest(outs))
        return result(PASS, stats=stats.to_json(), run_digest=core.digest(digests))


CHECK_C06 = core.register(C06Check())

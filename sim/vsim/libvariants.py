"""Process-free variants that ride on the simulated runs (reported separately in the evidence): the C08 counter-only mode
and the C17 library-level variant.  They execute inside the forked child of a worker interpreter, next to the simulated
run that carries them, so that they use all cores."""
import collections
import os

from . import core

_M2 = {}


def load_m2_light():
    """bin/martinize2 as a module in the driver (argument parsing helpers only; no library is loaded)."""
    if 'm2' not in _M2:
        import importlib.machinery
        import importlib.util
        loader = importlib.machinery.SourceFileLoader('m2light', os.path.join(core.REPO, 'bin', 'martinize2'))
        spec = importlib.util.spec_from_loader('m2light', loader)
        mod = importlib.util.module_from_spec(spec)
        loader.exec_module(mod)
        import logging
        logging.getLogger('vermouth').removeHandler(mod.CONSOLE_HANDLER)
        _M2['m2'] = mod
    return _M2['m2']


def counter_only(seed, n, m2=None):
    """Replay generated record histories straight into the real CountingHandler through the real adapters
    and compare the real accounting with the reference formula.  -> (mismatch | None, histories, records)"""
    import logging
    from vermouth.log_helpers import CountingHandler, StyleAdapter, TypeAdapter, ignore_warnings_and_count
    from . import peval
    m2 = m2 or load_m2_light()
    types = ['general', 'pdb-alternate', 'unknown-residue', 'model', 'x-y', 'inconsistent-data']
    total_records = 0
    for i in range(n):
        rng = core.sub_rng(seed, 'counter', i)
        logger = logging.Logger('vsim.c08')
        logger.setLevel(1)
        handler = CountingHandler()
        handler.setLevel(logging.WARNING)
        logger.addHandler(handler)
        adapter = StyleAdapter(TypeAdapter(logger))
        used = rng.sample(types, rng.randint(0, 6))
        records = []
        for t in used:
            for level in rng.sample([30, 30, 40, 50, 35, 20, 25], rng.randint(1, 3)):
                count = rng.choice([0, 1, 1, 2, 3, 5, 10, 50])
                for _ in range(count):
                    if t == 'general' and rng.random() < 0.5:
                        adapter.log(level, 'record {}', count)          # default type
                    else:
                        adapter.log(level, 'record {}', count, type=t)
                    records.append((level, t))
        total_records += len(records)
        spec_strings = []
        groups = []
        for _ in range(rng.randint(0, 3)):
            grp = []
            for _ in range(rng.randint(1, 3)):
                r = rng.random()
                if r < 0.35:
                    sp = str(rng.choice([0, 1, 2, 3, 5, 10, 49, 50, 51, 1000, -1, -7]))
                elif r < 0.6:
                    sp = rng.choice(types + ['never-occurs'])
                else:
                    sp = '%s:%d' % (rng.choice(types + ['never-occurs', '']), rng.choice([0, 1, 2, 9, 10, 11, 50, 60, -3]))
                grp.append(sp)
            groups.append(grp)
            spec_strings += grp
        specs = [[m2.maxwarn(sp) for sp in grp] for grp in groups]
        got = ignore_warnings_and_count(handler, specs)
        want, comparable = peval.reference_R([r for r in records if r[0] >= logging.WARNING], spec_strings)
        if comparable and got != want:
            return ({'history': i, 'records': sorted(collections.Counter(records).items()), 'maxwarn': groups,
                     'expected': want, 'actual': got}, i + 1, total_records)
        if got < 0:
            return ({'history': i, 'records': sorted(collections.Counter(records).items()), 'maxwarn': groups,
                     'expected': '>= 0', 'actual': got}, i + 1, total_records)
    return None, n, total_records


# ---------------------------------------------------------------------------
# C17 library-level variant: the real processors on generated systems (reported separately)

class _MiniChild:
    def __init__(self):
        self.failed = []
        self.stats = core.Stats()
        self.peer = None

    def fail(self, prop, invariant, expected=None, actual=None, signature=None, detail=None):
        self.failed.append({'property': prop, 'invariant': invariant, 'expected': expected, 'actual': actual,
                            'signature': signature or invariant, 'detail': detail})


def c17_library(seed, n):
    """-> (failure | None, systems run, stats)"""
    from vermouth.molecule import Molecule
    from vermouth.system import System
    from vermouth import selectors
    from vermouth.dssp.dssp import AnnotateResidues, AnnotateMartiniSecondaryStructures
    from . import ssoracle
    mini = _MiniChild()
    oracle = ssoracle.Oracle(mini)
    prot = ['ALA', 'GLY', 'LYS', 'TRP', 'SER', 'GLU']
    reuse, reuse_seq = None, None
    for i in range(n):
        rng = core.sub_rng(seed, 'c17lib', i)
        system = System()
        nmol = rng.randint(1, 5)
        lengths = []
        equal_len = rng.random() < 0.35
        base_len = rng.choice([1, 2, 3, 5, 8, 9, 13, 20])
        desc = []
        for m in range(nmol):
            is_prot = rng.random() < 0.7
            nres = base_len if (equal_len and is_prot) else rng.choice([1, 2, 3, 5, 8, 9, 13, 20])
            mol = Molecule()
            key = rng.choice([0, 1, 10])
            keys = []
            for r in range(nres):
                resname = rng.choice(prot) if is_prot else rng.choice(['POPC', 'W', 'LIG'])
                for a in range(rng.randint(1, 3)):
                    keys.append((key, {'chain': 'ABCDE'[m], 'resid': r + 1 + 10 * (m % 2), 'resname': resname,
                                       'atomname': ['N', 'CA', 'C'][a], 'insertion_code': ''}))
                    key += rng.choice([1, 1, 2])
            if rng.random() < 0.3 and len(keys) > 2:
                # node order differs from key order (as after repair and sorting)
                tail = keys[-1]
                keys = [tail] + keys[:-1]
            for k, attrs in keys:
                mol.add_node(k, **attrs)
            system.molecules.append(mol)
            desc.append([is_prot, nres])
            if is_prot:
                lengths.append(nres)
        total = sum(lengths)
        k = rng.random()
        if k < 0.4:
            nseq = total
        elif k < 0.6 and lengths:
            nseq = lengths[0]
        elif k < 0.75:
            nseq = 1
        else:
            nseq = max(0, total + rng.choice([-3, -1, 1, 2]))
        if rng.random() < 0.6:
            seq = ''
            while len(seq) < nseq:
                seq += 'H' * rng.choice([1, 2, 3, 4, 5, 6, 7, 8, 9, 10, 15]) + rng.choice('CETSBGI') * rng.choice([1, 1, 2, 3])
            seq = seq[:nseq]
        else:
            seq = ''.join(rng.choice('HHHGIEBTSC') for _ in range(nseq))
        if reuse is not None and rng.random() < 0.5:
            proc = reuse                      # the same processor object applied to another system (state between calls)
            seq = reuse_seq
            mini.stats.probes['ss_processor_reused'] += 1
        else:
            proc = AnnotateResidues(attribute='aasecstruct', sequence=seq, molecule_selector=selectors.is_protein)
        reuse, reuse_seq = proc, seq
        oracle.begin_annotate_residues(proc, system, sequence=seq)
        raised = None
        try:
            proc.run_system(system)
        except Exception as err:
            raised = err
        if not seq and not lengths:
            oracle.before.pop('AnnotateResidues', None)
        else:
            oracle.end_annotate_residues(proc, system, raised)
        if mini.failed:
            return dict(mini.failed[0], detail={'system': desc, 'sequence': seq, 'history': i}), i + 1, mini.stats
        if raised is None:
            proc2 = AnnotateMartiniSecondaryStructures()
            oracle.begin_martini(proc2, system)
            raised2 = None
            try:
                proc2.run_system(system)
            except Exception as err:
                raised2 = err
            oracle.end_martini(proc2, system, raised2)
            if mini.failed:
                return dict(mini.failed[0], detail={'system': desc, 'sequence': seq, 'history': i}), i + 1, mini.stats
    return None, n, mini.stats



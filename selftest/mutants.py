#!/usr/bin/env python3
"""Sensitivity self-test (DESIGN.md section 8): hand-written semantic mutations are applied to a scratch
worktree of /repo (never to /repo itself); the quick machinery must report a VIOLATION for each.
Usage: python3 selftest/mutants.py [ID-prefix ...]     (results: selftest/mutants_result.json)"""
import json
import os
import subprocess
import sys
import tempfile

HERE = os.path.dirname(os.path.dirname(os.path.abspath(__file__)))

MUTANTS = [
    # id, check, file, old, new, runs
    ('C07-backup-cap', 'C07F', 'vermouth/file_writer.py', '        while backup_path.exists():', '        while backup_path.exists() and idx < 3:', 1500),
    ('C07-plus-mode', 'C07F', 'vermouth/file_writer.py', "            if 'w' in mode or '+' in mode:  # write", "            if 'w' in mode:  # write", 800),
    ('C07-move-before-backup', 'C07F', 'vermouth/file_writer.py',
     "                shutil.move(str(final_path), str(free_path))\n            LOGGER.debug('Writing output to {}.', final_path, type='general')\n            shutil.move(tmp_path, str(final_path))",
     "                shutil.copy2(str(final_path), str(free_path))\n            LOGGER.debug('Writing output to {}.', final_path, type='general')\n            os.replace(tmp_path, str(final_path)) if free_path == final_path else shutil.move(tmp_path, str(final_path))", 1500),
    ('C07-append-truncates', 'C07F', 'vermouth/file_writer.py', "        with _open(str(final_path), mode=mode) as final_file,", "        with _open(str(final_path), mode=mode.replace('a', 'w') if os.path.getsize(tmp_path) > 8192 else mode) as final_file,", 1500),
    ('C07-gate-off-by-one', 'C07P', 'bin/martinize2', '    if leftover_warnings:', '    if leftover_warnings > 1:', 120),
    ('C07-pdb-not-deferred', 'C07P', 'bin/martinize2', '    vermouth.pdb.write_pdb(system, str(args.outpath), omit_charges=True)',
     '    vermouth.pdb.write_pdb(system, str(args.outpath), omit_charges=True, defer_writing=len(system.molecules) < 3)', 120),
    ('C12-partial-interaction-removal', 'C12', 'vermouth/molecule.py', '                if node in interaction.atoms:', '                if node in interaction.atoms[:2]:', 500),
    ('C12-charge-group-offset', 'C12', 'vermouth/molecule.py', "            offset_charge_group = self.nodes[last_node_idx].get('charge_group', 1)", "            offset_charge_group = self.nodes[last_node_idx].get('resid', 1)", 500),
    ('C12-copy-aliases-citations', 'C12', 'vermouth/molecule.py', '        new.citations = self.citations.copy()', '        new.citations = self.citations', 1500),
    ('C12-merge-skips-selfkey', 'C12', 'vermouth/molecule.py', '        for idx, node in enumerate(molecule.nodes(), start=offset + 1):', '        for idx, node in enumerate(molecule.nodes(), start=max(offset, len(self)) + 1):', 1500),
    ('C02-impropers-section', 'C02M', 'vermouth/gmx/itp.py', "        if name == 'impropers':", "        if name == 'improperz':", 400),
    ('C02-params-truncated', 'C02M', 'vermouth/gmx/itp.py', "                parameters = ' '.join(str(x) for x in interaction.parameters)", "                parameters = ' '.join(str(x) for x in interaction.parameters[:3])", 400),
    ('C02-vsn-order', 'C02M', 'vermouth/gmx/itp.py', '                    to_join = [atoms[0], parameters] + atoms[1:]', '                    to_join = atoms + [parameters]', 400),
    ('C02-ifndef-as-ifdef', 'C02M', 'vermouth/gmx/itp.py', "    conditional_keys = {True: '#ifdef', False: '#ifndef'}\n    for name in molecule.sort_interactions", "    conditional_keys = {True: '#ifdef', False: '#ifdef'}\n    for name in molecule.sort_interactions", 400),
    ('C03-count-off-by-one', 'C03P', 'vermouth/gmx/topology.py', '        moltype_count.append([moltype, 1 + len(list(molecules))])', '        moltype_count.append([moltype, max(1, len(list(molecules)))])', 150),
    ('C03-dedup-ignores-interactions', 'C03P', 'vermouth/molecule.py', '            self.same_edges(other) and\n            self.same_interactions(other)\n        )\n\n    # TODO: Allow comparison', '            self.same_edges(other)\n        )\n\n    # TODO: Allow comparison', 200),
    ('C03-pdb-node-order', 'C03M', 'vermouth/pdb/pdb.py', '        for node_idx in molecule.sorted_nodes:', '        for node_idx in molecule.nodes:', 200),
    ('C03-gro-node-order', 'C03M', 'vermouth/gmx/gro.py', '            node_order = molecule.sorted_nodes', '            node_order = molecule.nodes', 500),
    ('C06-not-induced', 'C06', 'vermouth/ismags.py', '            not_gn_neighbours = set(self.graph.nodes) - set(self.graph[gn])', '            not_gn_neighbours = set(self.graph.nodes)', 300),
    ('C06-no-constraints', 'C06', 'vermouth/ismags.py', '                if node_i != node_t:\n                    # Node i must be smaller than node t.', '                if node_i != node_t and len(cosets) > 3:\n                    # Node i must be smaller than node t.', 600),
    ('C08-overdeduct', 'C08', 'vermouth/log_helpers.py', '            total -= max(0, min(count, specs[warning_type]))', '            total -= max(0, specs[warning_type])', 60),
    ('C08-blanket-not-consumed', 'C08', 'vermouth/log_helpers.py', '            blanket_ignore = max(0, blanket_ignore - type_count)', '            blanket_ignore = max(0, blanket_ignore)', 60),
    ('C08-errors-waived', 'C08', 'vermouth/log_helpers.py', '    warning_count = counter.counts[level]', '    warning_count = {k: v for lvl in counter.counts if lvl >= level for k, v in counter.counts[lvl].items()}', 60),
    ('C17-zip-all-molecules', 'C17', 'vermouth/dssp/dssp.py', '        for molecule, nres in zip(selected_molecules, molecule_lengths):', '        for molecule, nres in zip(system.molecules, molecule_lengths):', 60),
    ('C17-helix5-rule', 'C17', 'vermouth/dssp/dssp.py', "('.HHHHH.', '.13332.')", "('.HHHHH.', '.13322.')", 60),
    ('C17-accept-longer-sequence', 'C17', 'vermouth/dssp/dssp.py', '    elif len(sequence) != len(residues):', '    elif len(sequence) < len(residues):', 120),
    ('C17-dssp-column', 'C17', 'vermouth/dssp/dssp.py', '            secondary_structure = line[16]', '            secondary_structure = line[16] if line_num % 7 else line[15]', 120),
    ('C11-altloc-first-seen', 'C11', 'vermouth/processors/average_beads.py', None, None, 0),
]


def main():
    wanted = sys.argv[1:]
    scratch = tempfile.mkdtemp(prefix='vsim-mut-', dir='/tmp')
    wt = os.path.join(scratch, 'wt')
    subprocess.run(['git', '-C', '/repo', 'worktree', 'add', '-q', '--detach', wt, 'HEAD'], check=True)
    results = []
    try:
        for mid, check, path, old, new, runs in MUTANTS:
            if old is None:
                continue
            if wanted and not any(mid.startswith(w) for w in wanted):
                continue
            full = os.path.join(wt, path)
            text = open(full).read()
            if old not in text:
                results.append({'id': mid, 'status': 'STALE (pattern not found)'})
                print(mid, 'STALE', flush=True)
                continue
            open(full, 'w').write(text.replace(old, new, 1))
            env = dict(os.environ, VERIF_REPO=wt, VERIF_RUNS=str(runs), VERIF_DET='0', VERIF_SCRATCH=scratch,
                       VERIF_EVIDENCE_DIR=os.path.join(scratch, 'evidence'), VERIF_REPLAY_DIR=os.path.join(scratch, 'replays'))
            # evidence of these development runs must not overwrite the registered evidence files
            proc = subprocess.run([os.path.join(HERE, 'check'), check], env=env, capture_output=True, text=True, timeout=3000)
            lines = [l for l in proc.stdout.splitlines() if l.startswith(('VIOLATION', '  invariant='))]
            status = 'CAUGHT' if proc.returncode == 1 and lines else 'MISSED (exit %d)' % proc.returncode
            results.append({'id': mid, 'check': check, 'status': status, 'first': lines[:2]})
            print(mid, status, lines[1].strip() if len(lines) > 1 else '', flush=True)
            subprocess.run(['git', '-C', wt, 'checkout', '--', '.'], check=True)
    finally:
        subprocess.run(['git', '-C', '/repo', 'worktree', 'remove', '--force', wt])
        subprocess.run(['rm', '-rf', scratch])
    with open(os.path.join(HERE, 'selftest', 'mutants_result.json'), 'w') as handle:
        json.dump(results, handle, indent=1)
    return 0


if __name__ == '__main__':
    sys.exit(main())

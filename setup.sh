#!/bin/bash
# Offline setup: nothing to fetch or build. Byte-compile the simulator and run its own unit tests.
set -e
here="$(cd "$(dirname "${BASH_SOURCE[0]}")" && pwd)"
cd "$here"
export PYTHONPATH="$here/sim" PYTHONHASHSEED=0 PYTHONDONTWRITEBYTECODE=1
/venv/bin/python -m compileall -q sim >/dev/null
/venv/bin/python -W ignore -c "import vsim.registry; print('vsim import ok')"
if [ -f sim/vsim/selftest.py ]; then /venv/bin/python -W ignore -m vsim.selftest; fi

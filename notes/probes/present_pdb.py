import sys, random, itertools
import numpy as np
def transform(lines, rng, perm=True, rename=True, rot=True):
    # cube rotations
    mats=[]
    for p in itertools.permutations(range(3)):
        for s in itertools.product([1,-1],repeat=3):
            m=np.zeros((3,3),int)
            for i in range(3): m[i,p[i]]=s[i]
            if round(np.linalg.det(m))==1: mats.append(m)
    R = mats[rng.randrange(len(mats))] if rot else np.eye(3,dtype=int)
    t = np.array([rng.randrange(-20000,20000) for _ in range(3)]) if rot else np.zeros(3,int)  # in 0.001 A
    out=[]; cur=[]; curkey=None
    def flush():
        nonlocal cur
        if perm: rng.shuffle(cur)
        out.extend(cur); cur=[]
    hcount=0
    for l in lines:
        if l.startswith(('ATOM','HETATM')):
            key=l[17:27]
            if key!=curkey: flush(); curkey=key
            x=[int(round(float(l[30+8*i:38+8*i])*1000)) for i in range(3)]
            y=R@np.array(x)+t
            name=l[12:16]; el=l[76:78].strip() if len(l)>=78 else ''
            isH = (el=='H') or (not el and name.strip().lstrip('0123456789')[:1]=='H')
            if rename and isH:
                hcount+=1
                name='H%03d'%(hcount%1000)
                name=name[:4]
            l=l[:12]+name+l[16:30]+''.join('%8.3f'%(v/1000) for v in y)+l[54:]
            cur.append(l)
        else:
            flush(); curkey=None
            if l.startswith('CONECT'): continue
            out.append(l)
    flush()
    # renumber atom serials
    n=0; res=[]
    for l in out:
        if l.startswith(('ATOM','HETATM')):
            n+=1; l=l[:6]+'%5d'%n+l[11:]
        res.append(l)
    return res
if __name__=='__main__':
    src,dst,seed,flags=sys.argv[1:5]
    rng=random.Random(int(seed))
    lines=[l.rstrip('\n') for l in open(src)]
    res=transform(lines,rng,'p' in flags,'h' in flags,'r' in flags)
    open(dst,'w').write('\n'.join(res)+'\n')

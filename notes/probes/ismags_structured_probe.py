import sys, random, time, itertools
import networkx as nx
from bf import isos, auts, classes
from vermouth.ismags import ISMAGS
def gens(rng):
    k = rng.randrange(8)
    if k==0: return nx.cycle_graph(rng.randint(3,7))
    if k==1: return nx.star_graph(rng.randint(2,5))
    if k==2: return nx.path_graph(rng.randint(2,7))
    if k==3: return nx.complete_bipartite_graph(rng.randint(1,3), rng.randint(1,3))
    if k==4: return nx.balanced_tree(2, 2)
    if k==5:
        g = nx.Graph([(0,3),(0,4),(0,8),(3,12),(3,16),(4,5),(8,9),(12,13),(16,17)]); return nx.convert_node_labels_to_integers(g)
    if k==6: return nx.random_labeled_tree(rng.randint(3,7), seed=rng.randrange(10**9))
    return nx.complete_graph(rng.randint(2,4))
def run(seed, N):
    rng = random.Random(seed); bad=0
    nm = lambda a, b: a.get('c',0) == b.get('c',0); em = lambda a,b: True
    for t in range(N):
        S = gens(rng)
        G = nx.Graph(S)
        # extend G with extra nodes/edges
        base = max(G.nodes)+1
        for i in range(rng.randint(0, 3)):
            G.add_edge(base+i, rng.choice(list(G.nodes)))
        if rng.random()<0.5 and len(G)<=8:
            G = nx.disjoint_union(G, gens(rng))
        if len(G) > 9 or len(S) > 8: continue
        if rng.random() < 0.3:
            for g in (G,S):
                for v in g: g.nodes[v]['c'] = rng.randrange(2)
        perm = list(G.nodes); rng.shuffle(perm)
        G = nx.relabel_nodes(G, dict(zip(G.nodes, ['g%d'%p for p in perm])))
        perm = list(S.nodes); rng.shuffle(perm)
        S = nx.relabel_nodes(S, dict(zip(S.nodes, ['s%d'%p for p in perm])))
        ref = isos(G, S, nm, em)
        got = [frozenset(x.items()) for x in ISMAGS(G, S, node_match=nm).find_isomorphisms(symmetry=False)]
        if sorted(map(sorted, got)) != sorted(map(sorted, ref)):
            bad+=1; print('NOSYM MISMATCH', t, len(got), len(ref), list(G.edges), list(S.edges)); continue
        A = auts(S, nm, em); cls = classes(ref, A)
        gots = [frozenset(x.items()) for x in ISMAGS(G, S, node_match=nm).find_isomorphisms(symmetry=True)]
        hit = [sum(1 for g in gots if g in c) for c in cls]
        if any(h != 1 for h in hit) or len(gots) != len(cls):
            bad+=1; print('SYM MISMATCH', t, 'classes', len(cls), 'got', len(gots), 'aut', len(A), list(G.edges), list(S.edges), dict(S.nodes(data='c')))
    return bad
t0=time.time(); print('seed', sys.argv[1], 'bad', run(int(sys.argv[1]), int(sys.argv[2])), time.time()-t0)

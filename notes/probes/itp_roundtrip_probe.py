import io, random, sys
from vermouth.molecule import Molecule, Interaction
from vermouth.gmx.itp import write_molecule_itp
NAT={'bonds':2,'angles':3,'dihedrals':4,'impropers':4,'constraints':2,'pairs':2,'exclusions':2,'position_restraints':1,'virtual_sitesn':3,'virtual_sites2':3}
def read_itp(text):
    sec=None; guard=None; atoms=[]; inter=[]; 
    for raw in text.split('\n'):
        line=raw.split(';')[0].strip()
        if not line: continue
        if line.startswith('['): sec=line.strip('[ ]'); continue
        if line.startswith('#ifdef'): guard=('ifdef',line.split()[1]); continue
        if line.startswith('#ifndef'): guard=('ifndef',line.split()[1]); continue
        if line.startswith('#endif'): guard=None; continue
        if line.startswith('#'): continue
        tok=line.split()
        if sec=='moleculetype': continue
        if sec=='atoms': atoms.append(tok)
        else: inter.append((sec,guard,tok))
    return atoms, inter
def run(seed,N):
    rng=random.Random(seed); bad=0
    for it in range(N):
        n=rng.randint(1,12)
        keys=rng.sample(range(-5,60), n)
        m=Molecule(nrexcl=rng.randint(1,3)); m.meta['moltype']='X'
        ids=list(range(1,n+1)); rng.shuffle(ids)
        mode=rng.choice(['none','perm','order','partial'])
        for i,k in enumerate(keys):
            at=dict(atype='T%d'%rng.randint(0,3), resid=rng.randint(1,4), resname='R%d'%rng.randint(0,2), atomname='A%d'%k if k>=0 else 'M%d'%-k, charge_group=rng.randint(1,9))
            if rng.random()<0.7: at['charge']=rng.choice([0,-1.0,0.5])
            if rng.random()<0.5: at['mass']=rng.choice([72,36.0])
            if mode=='perm': at['atomid']=ids[i]
            elif mode=='order': at['atomid']=i+1
            elif mode=='partial' and rng.random()<0.5: at['atomid']=ids[i]
            m.add_node(k, **at)
        for j in range(rng.randint(0,10)):
            t=rng.choice(list(NAT))
            if NAT[t]>n: continue
            ats=tuple(rng.sample(keys, NAT[t]))
            meta={}
            r=rng.random()
            if r<0.2: meta['ifdef']='FLEX'
            elif r<0.35: meta['ifndef']='NOX'
            if rng.random()<0.3: meta['group']='g%d'%rng.randint(0,1)
            if rng.random()<0.2: meta['comment']='c'
            if rng.random()<0.2: meta['version']=rng.randint(0,2)
            m.add_interaction(t, ats, [str(rng.randint(1,9)), '%.3f'%rng.random()], meta)
        out=io.StringIO(); write_molecule_itp(m,out); text=out.getvalue()
        atoms,inter=read_itp(text)
        order=sorted(m.nodes, key=lambda k:(m.nodes[k].get('atomid', float('inf'))))
        # with ties (partial) python's sort is stable -> node order among missing
        idx={k:i+1 for i,k in enumerate(order)}
        ok = [int(a[0]) for a in atoms]==list(range(1,n+1))
        for a,k in zip(atoms,order):
            nd=m.nodes[k]
            exp=[nd['atype'],str(nd['resid']),nd['resname'],nd['atomname'],str(nd['charge_group'])]
            if a[1:6]!=exp: ok=False
            rest=a[6:]; er=[str(nd[x]) for x in ('charge','mass') if x in nd]
            if 'mass' in nd and 'charge' not in nd: pass  # ambiguous by design (blank charge)
            elif rest!=er: ok=False
        expi=[]
        for t,lst in m.interactions.items():
            for i in lst:
                sec='dihedrals' if t=='impropers' else t
                g=('ifdef',i.meta['ifdef']) if 'ifdef' in i.meta else (('ifndef',i.meta['ifndef']) if 'ifndef' in i.meta else None)
                a=[str(idx[x]) for x in i.atoms]
                tok = [a[0]]+list(i.parameters)+a[1:] if t=='virtual_sitesn' else a+list(i.parameters)
                expi.append((sec,g,tok))
        if sorted(map(repr,expi))!=sorted(map(repr,inter)): ok=False
        if not ok:
            bad+=1
            if bad<4: print('MISMATCH mode',mode,'\n',text, '\nEXP', sorted(map(repr,expi)),'\nGOT',sorted(map(repr,inter)))
    print('seed',seed,'bad',bad,'of',N)
run(int(sys.argv[1]), int(sys.argv[2]))

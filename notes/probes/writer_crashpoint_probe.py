import os, sys, shutil, random, itertools, tempfile, traceback
import vermouth.file_writer as fw
class SimCrash(BaseException): pass
class FS:
    def __init__(self): self.n=0; self.plan=None; self.log=[]
    def hit(self, name, *a):
        self.n+=1; self.log.append((self.n,name)+tuple(os.path.basename(str(x)) for x in a))
        if self.plan and self.plan[0]=='crash_before' and self.plan[1]==self.n: raise SimCrash()
        if self.plan and self.plan[0]=='exdev' and name=='rename' and 'tmpd' in str(a[0]): raise OSError(18,'xdev')
    def after(self):
        if self.plan and self.plan[0]=='crash_after' and self.plan[1]==self.n: raise SimCrash()
fs=FS()
real=dict(rename=os.rename, unlink=os.unlink, remove=os.remove)
def wrap(name):
    def f(*a, **k):
        fs.hit(name,*a); r=real[name](*a,**k); fs.after(); return r
    return f
os.rename=wrap('rename'); os.unlink=wrap('unlink'); os.remove=wrap('remove')
def tree(root):
    out={}
    for d,_,fs_ in os.walk(root):
        for f in fs_:
            p=os.path.join(d,f)
            if '/tmpd' in p: continue
            out[os.path.relpath(p,root)]=open(p,'rb').read()
    return out
def scenario(root, pre, ops, plan):
    shutil.rmtree(root, ignore_errors=True); os.makedirs(root+'/tmpd')
    for p,c in pre.items(): open(os.path.join(root,p),'w').write(c)
    w=fw.DeferredFileWriter(); w.close(); w._tmpdir=root+'/tmpd'
    before=tree(root)
    for path,mode,data in ops:
        try:
            with w.open(os.path.join(root,path),mode) as h:
                if 'r' in mode and '+' not in mode: h.read()
                else: h.write(data)
        except Exception as e: print('  open err', path, mode, type(e).__name__)
    assert tree(root)==before, 'I1'
    fs.n=0; fs.plan=plan; fs.log=[]
    crashed=False
    try: w.write()
    except SimCrash: crashed=True
    except Exception as e: print('  write err', type(e).__name__, e)
    fs.plan=None
    n=fs.n
    w.open_files.clear()
    return before, tree(root), n, crashed, list(fs.log)
root='/tmp/probe8/r'
pre={'a.txt':'OLD-A','#a.txt.1#':'OLDBK1','b.txt':'OLD-B'}
ops=[('a.txt','w','NEW-A'),('b.txt','a','+APP'),('c.txt','w','NEW-C'),('d.txt','a','NEW-D'),('a.txt','a','+more')]
b,a,n,_,log=scenario(root,pre,ops,None)
print('fault-free:',a, n); print(log)
for k in range(1,n+1):
    for kind in ('crash_before','crash_after'):
        b,a,_,cr,_=scenario(root,pre,ops,(kind,k))
        lost=[p for p,c in b.items() if not (a.get(p)==c or any(v==c for q,v in a.items() if q.startswith('#')) or (a.get(p,b'').startswith(c)))]
        print(kind,k,'crashed',cr,'lost',lost, sorted(a))
# xdev
b,a,n,_,log=scenario(root,pre,ops,('exdev',0)); print('xdev', a, log)
# r+ on missing
b,a,n,_,log=scenario(root,{}, [('zz.txt','r+','X')], None); print('r+ missing ->', a)
b,a,n,_,log=scenario(root,{'q.txt':'Q'}, [('q.txt','a+','X')], None); print('a+ ->', a)
b,a,n,_,log=scenario(root,{'q.txt':'Q'}, [('q.txt','a','X'),('q.txt','w','Y')], None); print('a then w ->', a)

import random, logging, sys
from collections import defaultdict
from vermouth.log_helpers import CountingHandler, ignore_warnings_and_count
def R(counts, specs):
    # counts: {level: {type: n}}
    above = sum(n for lvl, d in counts.items() if lvl > logging.WARNING for n in d.values())
    w = counts.get(logging.WARNING, {})
    named=set(); lim={}; blanket=0; 
    for group in specs:
        for t,c in group:
            if c is None: named.add(t)
            elif t is None: blanket=max(blanket,c,0)
            else: lim[t]=max(lim.get(t,0),c,0)
    if named & set(lim): return None
    if None in named: return None
    left=above; rest=0
    for t,n in w.items():
        if t in lim: left+=max(0,n-lim[t])
        elif t in named: pass
        else: rest+=n
    left+=max(0,rest-blanket)
    return left
rng=random.Random(int(sys.argv[1])); bad=0; n=0
types=['general','unmapped-atom','inconsistent-data','pdb-alternate','x']
for it in range(200000):
    h=CountingHandler()
    counts=defaultdict(dict)
    for lvl in rng.sample([logging.WARNING, logging.ERROR, logging.CRITICAL, 35, logging.INFO], rng.randint(0,3)):
        for t in rng.sample(types, rng.randint(0,3)):
            c=rng.choice([0,1,1,2,3,7,20])
            if c: h.counts[lvl][t]=c; counts[lvl][t]=c
    specs=[]
    for g in range(rng.randint(0,3)):
        grp=[]
        for k in range(rng.randint(1,3)):
            kind=rng.random()
            if kind<0.35: grp.append((None, rng.choice([-2,0,1,2,3,5,30])))
            elif kind<0.65: grp.append((rng.choice(types+['never']), None))
            else: grp.append((rng.choice(types+['never']), rng.choice([-1,0,1,2,5,30])))
        specs.append(grp)
    exp=R({k:v for k,v in counts.items() if k>=logging.WARNING}, specs)
    if exp is None: continue
    n+=1
    got=ignore_warnings_and_count(h, specs)
    if got!=exp:
        bad+=1
        if bad<6: print('MISMATCH', dict(counts), specs, 'got',got,'exp',exp)
print('n',n,'bad',bad)

import numpy as np, io
import vermouth
from vermouth.molecule import Molecule
from vermouth.system import System
from vermouth.pdb.pdb import write_pdb_string, PDBParser
s = System()
m = Molecule()
N = 10050
for i in range(N):
    m.add_node(i, atomname='C%d' % (i % 100), resname='XXX', resid=(i // 10) + 1, chain='A', position=np.array([i*0.01, 0., 0.]), element='C')
for i in range(N-1):
    m.add_edge(i, i+1)
s.add_molecule(m)
txt = write_pdb_string(s)
lines = txt.split('\n')
print([l for l in lines if l.startswith('CONECT')][9995:10001])
mols = list(PDBParser().parse(lines))
print(len(mols), sum(len(x) for x in mols), sum(x.number_of_edges() for x in mols), m.number_of_edges())
mm = mols[0]
bad = [(a,b) for a,b in mm.edges if abs(a-b)!=1]
print(len(bad), bad[:5])

import vermouth
from vermouth.molecule import Molecule
from vermouth.forcefield import ForceField
ff = ForceField(name='x')
def mk(n, start=0, resid=1):
    m = Molecule(force_field=ff, nrexcl=1)
    for i in range(n):
        m.add_node(start+i, atomname='A%d'%(start+i), resid=resid, charge_group=1)
    return m
a = mk(3, 1); b = mk(2, 0)
a.merge_molecule(b)
print('after merge', list(a.nodes), a.max_node)
a.add_nodes_from([(6, dict(atomname='X6', resid=9, charge_group=9)), (7, dict(atomname='X7', resid=9, charge_group=9))])
print('after add_nodes_from', list(a.nodes), a.max_node)
corr = a.merge_molecule(mk(2, 0))
print('merge2', corr, {n: a.nodes[n]['atomname'] for n in a.nodes}, a.max_node)
# remove highest then merge
c = mk(3,1); c.merge_molecule(mk(2,0)); c.remove_node(5)
try:
    print(c.merge_molecule(mk(1,0)))
except Exception as e: print('ERR', type(e), e)
# subgraph/copy max_node
d = mk(3,1); d.merge_molecule(mk(2,0)); e = d.copy(); print('copy max_node', e.max_node, d.max_node)
e.remove_node(5); e.remove_node(4)
print(e.merge_molecule(mk(1,0)), list(e.nodes))

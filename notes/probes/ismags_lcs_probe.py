import itertools, random, sys, time
import networkx as nx
from vermouth.ismags import ISMAGS
from bf import isos, auts
def common(G, S, nm, em, k):
    """all induced common subgraph maps of size k: frozenset((g,s))"""
    res=set()
    for T in itertools.combinations(S.nodes, k):
        sub = S.subgraph(T)
        for f in isos(G, sub, nm, em):
            res.add(f)
    return res
def run(seed, N):
    rng = random.Random(seed); bad=0; nontriv=0
    nm = lambda a, b: a.get('c',0) == b.get('c',0); em = lambda a,b: True
    for t in range(N):
        n = rng.randint(1, 6); m = rng.randint(1, 6)
        G = nx.gnp_random_graph(n, rng.choice([0.3,0.5,0.8]), seed=rng.randrange(10**9))
        S = nx.gnp_random_graph(m, rng.choice([0.3,0.5,0.8]), seed=rng.randrange(10**9))
        if rng.random()<0.4:
            for g in (G,S):
                for v in g: g.nodes[v]['c']=rng.randrange(2)
        G = nx.relabel_nodes(G, {v:'g%d'%v for v in G}); S = nx.relabel_nodes(S, {v:'s%d'%v for v in S})
        # max size
        kmax=0; ref=set()
        for k in range(min(n,m),0,-1):
            ref = common(G,S,nm,em,k)
            if ref: kmax=k; break
        for sym in (False, True):
            got = [frozenset(x.items()) for x in ISMAGS(G,S,node_match=nm).largest_common_subgraph(symmetry=sym)]
            if kmax==0:
                if got: bad+=1; print('NONEMPTY', seed,t,sym,got)
                continue
            if any(len(x)!=kmax for x in got) or any(x not in ref for x in got):
                bad+=1; print('INVALID/SIZE', seed, t, sym, kmax, [len(x) for x in got][:5], list(G.edges), list(S.edges)); continue
            if not sym:
                if set(got)!=ref:
                    bad+=1; print('INCOMPLETE nosym', seed,t, len(set(got)), len(ref), list(G.edges), list(S.edges), dict(G.nodes(data='c')), dict(S.nodes(data='c')))
            else:
                A = auts(S, nm, em)
                covered=set()
                for f in got:
                    d={s:g for g,s in f}
                    for a in A:
                        covered.add(frozenset((d[s], a[s]) for s in d))
                miss = ref - covered
                if miss:
                    bad+=1; print('INCOMPLETE sym', seed,t, len(got), len(ref), len(miss), list(G.edges), list(S.edges), dict(G.nodes(data='c')), dict(S.nodes(data='c')))
            if kmax< min(n,m): nontriv+=1
    return bad, nontriv
t0=time.time(); print('seed', sys.argv[1], run(int(sys.argv[1]), int(sys.argv[2])), time.time()-t0)

import importlib.machinery, importlib.util, sys, os, types, logging, random
loader = importlib.machinery.SourceFileLoader('m2sim', '/repo/bin/martinize2')
spec = importlib.util.spec_from_loader('m2sim', loader); m2 = importlib.util.module_from_spec(spec); loader.exec_module(m2)
import vermouth.dssp.dssp as D
received = {}
class P: pass
def fake_run(cmd, **kw):
    r = P(); r.stderr = b'' if '--version' in cmd else ''
    if '--version' in cmd:
        r.stdout = b'mkdssp version 3.0.0'; r.returncode = 0; return r
    fn = cmd[cmd.index('-i')+1]
    lines = [l for l in open(fn) if l.startswith('ATOM')]
    runs = []
    for l in lines:
        k = (l[21], l[22:27])
        if not runs or runs[-1][0] != k: runs.append([k, 0])
        runs[-1][1] += 1
    received['runs'] = runs
    rng = random.Random(3)
    out = ['==== Secondary Structure Definition ==== ', '  #  RESIDUE AA STRUCTURE BP1 BP2  ACC']
    ss = []
    for i, (k, n) in enumerate(runs, 1):
        s = rng.choice('HBEGITS ')
        ss.append(s)
        out.append('%5d%5s %s %s  %s' % (i, k[1].strip(), k[0], 'A', s) + ' ' * 20)
    received['ss'] = ss
    r.stdout = '\n'.join(out) + '\n'; r.returncode = 0
    return r
D.subprocess = types.SimpleNamespace(run=fake_run, PIPE=-1)
captured = {}
orig = D.AnnotateMartiniSecondaryStructures.run_system
def spy(self, system):
    captured['aass'] = [[(system.molecules[i].nodes[r[0]].get('resid'), system.molecules[i].nodes[r[0]].get('aasecstruct')) for r in system.molecules[i].iter_residues()] for i in range(len(system.molecules))]
    return orig(self, system)
D.AnnotateMartiniSecondaryStructures.run_system = spy
m2.AnnotateMartiniSecondaryStructures = D.AnnotateMartiniSecondaryStructures
sys.argv = ['martinize2', '-f', 'aa.pdb', '-x', 'cg.pdb', '-o', 'topol.top', '-dssp', 'fakedssp', '-maxwarn', '100']
logging.getLogger('vermouth').setLevel(logging.ERROR)
try:
    m2.entry()
    code = 0
except SystemExit as e:
    code = e.code
except Exception as e:
    code = repr(e)
print('exit', code)
print('runs', [(k[1].strip(), n) for k, n in received.get('runs', [])])
print('peer ss', ''.join(received.get('ss', [])).replace(' ', 'C'))
print('annot  ', captured.get('aass'))
print(sorted(os.listdir('.')))

import itertools, random, sys, time
import networkx as nx
from vermouth.ismags import ISMAGS

def isos(G, S, nm, em):
    sn = list(S.nodes); res=[]
    for tgt in itertools.permutations(G.nodes, len(sn)):
        m = dict(zip(sn, tgt))
        ok = all(nm(G.nodes[m[s]], S.nodes[s]) for s in sn)
        if not ok: continue
        for a, b in itertools.combinations(sn, 2):
            es = S.has_edge(a, b); eg = G.has_edge(m[a], m[b])
            if es != eg or (es and not em(G.edges[m[a], m[b]], S.edges[a, b])): ok=False; break
        if ok: res.append(frozenset((g, s) for s, g in m.items()))
    return res
def auts(S, nm, em):
    return [dict((s2, s1) for (s1, s2) in f) for f in isos(S, S, nm, em)]  # maps s -> s'
def classes(iso_list, A):
    seen=set(); cls=[]
    for f in iso_list:
        if f in seen: continue
        orb=set()
        d = {s: g for g, s in f}
        for a in A:
            # f∘a : s -> g
            orb.add(frozenset((d[a[s]], s) for s in d))
        seen |= orb; cls.append(orb)
    return cls
def run(seed, N):
    rng = random.Random(seed); bad=0
    for t in range(N):
        n = rng.randint(1, 7); m = rng.randint(1, min(n, 6))
        G = nx.gnp_random_graph(n, rng.choice([0.2,0.4,0.6,0.9]), seed=rng.randrange(10**9))
        kind = rng.random()
        if kind < 0.5:
            S = nx.gnp_random_graph(m, rng.choice([0.3,0.6,1.0]), seed=rng.randrange(10**9))
        else:
            nodes = rng.sample(list(G.nodes), m); S = nx.Graph(G.subgraph(nodes)); S = nx.relabel_nodes(S, {v:i for i,v in enumerate(sorted(S.nodes, key=lambda x: rng.random()))})
        ncol = rng.choice([1,1,2,3])
        for g in (G, S):
            for v in g.nodes: g.nodes[v]['c'] = rng.randrange(ncol)
            for e in g.edges: g.edges[e]['c'] = rng.randrange(rng.choice([1,1,2]))
        # relabel with strings
        G = nx.relabel_nodes(G, {v: 'g%d' % v for v in G}); S = nx.relabel_nodes(S, {v: 's%d' % v for v in S})
        nm = lambda a, b: a['c'] == b['c']; em = lambda a, b: a['c'] == b['c']
        ref = isos(G, S, nm, em)
        got = [frozenset(x.items()) for x in ISMAGS(G, S, node_match=nm, edge_match=em).find_isomorphisms(symmetry=False)]
        if sorted(map(sorted, got)) != sorted(map(sorted, ref)):
            bad+=1; print('NOSYM MISMATCH', seed, t, len(got), len(ref), G.edges, S.edges); continue
        A = auts(S, nm, em)
        cls = classes(ref, A)
        gots = [frozenset(x.items()) for x in ISMAGS(G, S, node_match=nm, edge_match=em).find_isomorphisms(symmetry=True)]
        hit = [sum(1 for g in gots if g in c) for c in cls]
        if any(h != 1 for h in hit) or len(gots) != len(cls):
            bad+=1; print('SYM MISMATCH', seed, t, 'classes', len(cls), 'got', len(gots), hit, dict(G.nodes(data='c')), list(G.edges(data='c')), dict(S.nodes(data='c')), list(S.edges(data='c')))
    return bad
if __name__ == '__main__':
    t0=time.time(); b = run(int(sys.argv[1]), int(sys.argv[2])); print('seed', sys.argv[1], 'bad', b, 'time', time.time()-t0)

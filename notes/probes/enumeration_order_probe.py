import sys, os, glob as globmod, pathlib, random, hashlib, logging, io
mode = sys.argv[1]; case = sys.argv[2]; extra = sys.argv[3:]
rng = random.Random(mode)
if mode != 'native':
    real_listdir = os.listdir; real_glob = globmod.glob; real_pglob = pathlib.Path.glob
    def perm(xs):
        xs = sorted(xs, key=str)
        if mode == 'sorted': return xs
        if mode == 'reversed': return xs[::-1]
        rng.shuffle(xs); return xs
    os.listdir = lambda p='.': perm(real_listdir(p))
    globmod.glob = lambda *a, **k: perm(real_glob(*a, **k))
    pathlib.Path.glob = lambda self, pat, **k: iter(perm(list(real_pglob(self, pat, **k))))
import vermouth.forcefield as F
if mode != 'native': F.glob = globmod.glob
import importlib.machinery, importlib.util
loader = importlib.machinery.SourceFileLoader('m2sim', '/repo/bin/martinize2')
spec = importlib.util.spec_from_loader('m2sim', loader); m2 = importlib.util.module_from_spec(spec); loader.exec_module(m2)
src = '/repo/vermouth/tests/data/integration_tests/' + case
pdb = sorted(p for p in globmod.glob(src + '/*.pdb'))[0]
d = '/tmp/vprobe/e/%s.%s.%s' % (case.replace('/', '_'), mode, '_'.join(extra)); os.makedirs(d, exist_ok=True); os.chdir(d)
for f in os.listdir('.'): os.remove(f)
sys.argv = ['martinize2', '-f', pdb, '-x', 'cg.pdb', '-o', 'topol.top', '-maxwarn', '1000'] + extra
logging.getLogger('vermouth').setLevel(logging.CRITICAL)
try: m2.entry(); code = 0
except SystemExit as e: code = e.code
except Exception as e: code = type(e).__name__
h = hashlib.md5()
for f in sorted(os.listdir('.')):
    if f.endswith(('.itp', '.top')):
        h.update(''.join(l for l in open(f) if not l.startswith(';')).encode())
print(case, mode, extra, 'exit', code, h.hexdigest()[:10])

import os, sys, runpy, time, logging, shutil, io
t0 = time.time()
ns = runpy.run_path('/repo/bin/martinize2', run_name='m2sim')
print('load', time.time()-t0)
events = []
def hook(ev, args):
    if ev in ('open', 'os.rename', 'os.remove', 'shutil.move', 'tempfile.mkstemp', 'os.mkdir', 'shutil.copyfile'):
        events.append((ev, tuple(str(a)[:60] for a in args)))
sys.addaudithook(hook)
real_rename = os.rename
calls = []
def fake_rename(src, dst, **kw):
    calls.append((os.path.basename(str(src)), os.path.basename(str(dst))))
    return real_rename(src, dst, **kw)
os.rename = fake_rename
def run(argv):
    pid = os.fork()
    if pid == 0:
        sys.argv = ['martinize2'] + argv
        sys.stderr = open(os.devnull, 'w')
        logging.getLogger('vermouth').handlers[0].stream = sys.stderr
        code = 0
        try:
            ns['entry']()
        except SystemExit as e:
            code = e.code or 0
        w = [e for e in events if e[0]=='open' and ("'w'" in e[1][1] or e[1][1] in ('w','a')) ]
        print('child exit', code, 'renames', calls, 'wopens', [e for e in events if e[0]=='open' and e[1][1] not in ('r','rb',"None")][:12], flush=True)
        os._exit(0)
    os.waitpid(pid, 0)
t1=time.time()
run(['-f','aa.pdb','-x','cg.pdb','-o','topol.top','-ff','martini3001'])
print('run', time.time()-t1, sorted(os.listdir('.')))

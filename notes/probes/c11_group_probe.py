import os, sys, random, glob, runpy, logging, io, itertools, hashlib, traceback, time
from pathlib import Path
import numpy as np

from present import transform
import vermouth, vermouth.forcefield
from vermouth import DATA_PATH
from vermouth.map_input import read_mapping_directory, generate_all_self_mappings, combine_mappings
logging.getLogger('vermouth').setLevel(logging.CRITICAL)
ffs = vermouth.forcefield.find_force_fields(Path(DATA_PATH)/'force_fields')
maps = read_mapping_directory(Path(DATA_PATH)/'mappings', ffs)
combine_mappings(maps, generate_all_self_mappings(ffs.values()))
ns = runpy.run_path('/repo/bin/martinize2', run_name='m2')
class Rec(logging.Handler):
    def __init__(s): super().__init__(); s.r=[]
    def emit(s, rec): s.r.append((rec.levelno, getattr(rec,'type','?')))
POOL = sorted(glob.glob('/repo/vermouth/tests/data/integration_tests/tier-*/*/*.pdb'))
def derive(rng):
    src = rng.choice(POOL)
    atoms = [l.rstrip('\n') for l in open(src) if l.startswith(('ATOM','HETATM')) and l[16] in ' A']
    keys=[]; 
    for l in atoms:
        k=(l[21],l[22:27])
        if not keys or keys[-1]!=k: keys.append(k)
    nch = rng.randint(1,3); out=[]; desc=[src.split('/')[-2]]
    for c in range(nch):
        L = rng.randint(2,12); s = rng.randrange(0, max(1,len(keys)-L))
        seg = set(keys[s:s+L]); dx = 60.0*c
        ch = 'ABC'[c]
        drop_h = rng.random()<0.3
        for l in atoms:
            if (l[21],l[22:27]) in seg:
                if drop_h and l[76:78].strip()=='H': continue
                if rng.random()<0.02 and l[12:16].strip() not in ('N','CA','C','O'): continue
                x=float(l[30:38])+dx
                out.append(l[:21]+ch+l[22:30]+'%8.3f'%x+l[38:])
        out.append('TER'); desc.append((s,L,drop_h))
    out.append('END')
    return out, desc
def pipeline(lines, seed, opts):
    fn='/tmp/vprobe/in_%d.pdb'%os.getpid(); open(fn,'w').write('\n'.join(lines)+'\n')
    s = ns['read_system'](Path(fn), ignh=False, modelidx=1)
    s = ns['pdb_to_universal'](s, delete_unknown=True, force_field=ffs['charmm'], bonds_fudge=1.2, modifications=[['cter','C-ter'],['nter','N-ter']])
    if not s.molecules: return None
    vermouth.SetMoleculeMeta(scfix=True).run_system(s)
    s = ns['martinize'](s, mappings=maps, to_ff=ffs[opts['ff']], delete_unknown=True)
    vermouth.NameMolType(deduplicate=True).run_system(s)
    if opts['elastic']:
        vermouth.ApplyRubberBand(lower_bound=0, upper_bound=0.9, decay_factor=0, decay_power=1, base_constant=700, minimum_force=0, selector=vermouth.selectors.select_backbone, domain_criterion=vermouth.processors.apply_rubber_band.always_true, res_min_dist=None).run_system(s)
    vermouth.SortMoleculeAtoms().run_system(s)
    return s
def canon(s):
    out=[]
    for m in s.molecules:
        key={n:(m.nodes[n].get('chain'), m.nodes[n].get('resid'), m.nodes[n].get('atomname')) for n in m}
        atoms=sorted((key[n], m.nodes[n].get('atype'), m.nodes[n].get('charge'), m.nodes[n].get('resname'), m.nodes[n].get('charge_group')) for n in m)
        inter=sorted((t, tuple(key[a] for a in i.atoms), tuple((round(float(p),4) if isinstance(p,(float,np.floating)) or (isinstance(p,str) and p.replace('.','',1).replace('-','',1).replace('e','',1).isdigit() and '.' in p) else str(p)) for p in i.parameters), str(sorted((k,str(v)) for k,v in i.meta.items() if k in ('ifdef','ifndef','group','version')))) for t, lst in m.interactions.items() for i in lst)
        out.append((atoms, inter, m.meta.get('moltype')))
    return out
def main(seed, N):
    rng=random.Random(seed); stats={'ok':0,'diff':0,'exc':0,'empty':0}
    for t in range(N):
        lines, desc = derive(rng)
        opts={'ff': rng.choice(['martini3001','martini22','elnedyn22']), 'elastic': rng.random()<0.5}
        try:
            base = pipeline(lines, 0, opts)
            if base is None: stats['empty']+=1; continue
            cb = canon(base)
            v = transform(lines, random.Random(rng.randrange(10**9)), True, True, True)
            var = pipeline(v, 0, opts)
            cv = canon(var)
            # chain-insensitive compare (chain kept)
            if cb==cv: stats['ok']+=1
            else:
                stats['diff']+=1
                for (a1,i1,m1),(a2,i2,m2) in zip(cb,cv):
                    if a1!=a2: print('ATOMS differ', desc, opts, [x for x in a1 if x not in a2][:3], [x for x in a2 if x not in a1][:3])
                    elif i1!=i2: print('INTER differ', desc, opts, [x for x in i1 if x not in i2][:3], [x for x in i2 if x not in i1][:3])
                    elif m1!=m2: print('MOLTYPE differ', desc, m1, m2)
                if len(cb)!=len(cv): print('NMOL differ', desc, len(cb), len(cv))
        except Exception as e:
            stats['exc']+=1; print('EXC', desc, opts, type(e).__name__, str(e)[:150])
    print('seed',seed,stats)
main(int(sys.argv[1]), int(sys.argv[2]))
